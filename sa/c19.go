package main

import (
	"fmt"
	"go/constant"
	"go/token"
	"go/types"
	"sort"
	"strings"

	"golang.org/x/tools/go/ssa"
)

func init() {
	register(&Prop{
		ID:         "C19",
		Decided:    "(1) Stream.dataChan is written only under dataChanMux.Lock and read under at least RLock; (2) on the expand strategy every send on the input buffer happens while the data-channel lock is held (a swap cannot strand a row): sends on a cached channel reference occur only in strategies that never expand, and expandDataChannel is called only by the expand strategy; (3) migration: the old channel is drained under the write lock, every received row is offered to the new channel, and the swap store happens under that lock after the drain; (4) in each strategy's ProcessData every path ends after exactly one of {row enqueued, input_dropped_count incremented, stop observed} and never enqueues twice; the block strategy without timeout has no drop path; (5) growth is attempted only when oldCap < MaxBufferSize and the new capacity never exceeds MaxBufferSize (when set); (6) single consumer (shared with C05) and input_count incremented before the strategy runs. Also: the migration's drain loop is left only after an attempt to receive from the old channel (empty, or the timeout arm), or because the new, still private channel is full (`k < cap(new)` false, k counting the rows sent into it) — never on a test made before trying that concerns the source, such as a row count sampled before the write lock (flow/migration#drain-until-empty); once a row was moved into the new channel every way out of expandDataChannel installs that channel (#installed-after-fill). Also: after every receive from the input channel that delivered a row, processItem runs before the processing goroutine receives again or returns; rows collected into a batch are handed to processItem by a loop that cannot be left early (flow/received-row-processed).",
		NotDecided: "conservation as a count under schedules, that the send into the private larger channel cannot lose to the 5 s migration timer (the path exists in the CFG and is tolerated as 'send attempted'), consumer speed.",
		Run:        runC19,
	})
}

// dataChanSend: the channel operand of a send (Send instr or select send state) derives from Stream.dataChan.
var dataChanDepth int

// allFuncsOfPkg: the functions and methods of an SSA package, closures included.
func allFuncsOfPkg(p *ssa.Package) []*ssa.Function {
	var out []*ssa.Function
	var add func(f *ssa.Function)
	add = func(f *ssa.Function) {
		if f == nil || f.Blocks == nil {
			return
		}
		out = append(out, f)
		for _, af := range f.AnonFuncs {
			add(af)
		}
	}
	for _, m := range p.Members {
		switch x := m.(type) {
		case *ssa.Function:
			add(x)
		case *ssa.Type:
			for _, t := range []types.Type{x.Type(), types.NewPointer(x.Type())} {
				ms := p.Prog.MethodSets.MethodSet(t)
				for i := 0; i < ms.Len(); i++ {
					if f := p.Prog.MethodValue(ms.At(i)); f != nil && f.Pkg == p && f.Synthetic == "" {
						add(f)
					}
				}
			}
		}
	}
	return out
}

func isDataChan(v ssa.Value, dc *types.Var) (direct bool, cached bool) {
	// a variable that is nil until the reference is looked up (`var ch chan T; if !stopped { ch = s.dataChan }`)
	if _, isPhi := v.(*ssa.Phi); isPhi {
		some := false
		for _, l := range phiLeaves(v) {
			if k, isK := l.(*ssa.Const); isK && k.Value == nil {
				continue
			}
			if _, again := l.(*ssa.Phi); again {
				return false, false
			}
			d, c := isDataChan(l, dc)
			if !d && !c {
				return false, false
			}
			some = true
			direct, cached = direct || d, cached || c
		}
		if !some {
			return false, false
		}
		return direct, cached && !direct
	}
	// a channel parameter of a helper that is handed the buffer reference at every call (`bs.sendWithin(ch, row, d)`):
	// a cached reference inside the helper
	if prm, isPrm := v.(*ssa.Parameter); isPrm && dataChanDepth < 2 {
		if _, isChan := prm.Type().Underlying().(*types.Chan); isChan {
			fn := prm.Parent()
			idx := -1
			for i, q := range fn.Params {
				if q == prm {
					idx = i
				}
			}
			calls, all := 0, true
			if fn.Pkg != nil && idx >= 0 {
				for _, caller := range allFuncsOfPkg(fn.Pkg) {
					allInstrs(caller, func(in ssa.Instruction) {
						cc := callCommon(in)
						if cc == nil || cc.StaticCallee() != fn || idx >= len(cc.Args) {
							return
						}
						calls++
						dataChanDepth++
						d, c := isDataChan(cc.Args[idx], dc)
						dataChanDepth--
						if !d && !c {
							all = false
						}
					})
				}
			}
			if calls > 0 && all {
				return false, true
			}
		}
	}
	t := TermOf(v, nil)
	if t.Kind == "field" && t.Field == dc {
		// direct field load or a local copy
		if u, ok := v.(*ssa.UnOp); ok {
			if _, ok := u.X.(*ssa.FieldAddr); ok {
				return true, false
			}
		}
		return true, false
	}
	// result of safeGetDataChan()
	if t.Kind == "call" && strings.HasSuffix(t.Name, "safeGetDataChan") {
		return false, true
	}
	return false, false
}

func runC19(a *A) {
	S := func() *types.Named { return a.Named("stream", "Stream") }
	a.Rule("locks/guarded-by", 1, func() {
		a.ruleGuardedBy(S(), map[string]GuardSpec{"dataChan": {Lock: "dataChanMux"}}, nil)
	})
	a.Rule("locks/send-under-lock", 4, func() {
		dc := a.FieldOf(S(), "dataChan")
		L := a.Locks()
		key := lockKey{"stream.Stream", "dataChanMux"}
		exp := a.Method("stream", "Stream", "expandDataChannel")
		// the strategies (implementations of DataProcessingStrategy) and, for each, whether any of its methods can
		// reach expandDataChannel. A strategy that cannot never coexists with a swap: a stream has one strategy.
		iface := a.Iface("stream", "DataProcessingStrategy")
		stratOf := func(fn *ssa.Function) *types.Named {
			for fn.Parent() != nil {
				fn = fn.Parent()
			}
			if fn.Signature.Recv() == nil {
				return nil
			}
			nt, _ := derefT(fn.Signature.Recv().Type()).(*types.Named)
			if nt == nil || !typesImplements(nt, iface) {
				return nil
			}
			return nt
		}
		methods := map[*types.Named][]*ssa.Function{}
		for _, fn := range a.ModFuncs {
			if fn.Parent() == nil {
				if nt := stratOf(fn); nt != nil {
					methods[nt] = append(methods[nt], fn)
				}
			}
		}
		expands := map[*types.Named]bool{}
		for nt, ms := range methods {
			expands[nt] = a.ReachFrom(ms)[exp]
		}
		// cachedSendOK: fn belongs to a strategy that never expands, and is used by that strategy only
		cachedSendOK := func(fn *ssa.Function) (string, bool) {
			nt := stratOf(fn)
			if nt == nil {
				return "", false
			}
			if expands[nt] {
				return "", false
			}
			root := fn
			for root.Parent() != nil {
				root = root.Parent()
			}
			for _, g := range a.ModFuncs {
				if len(callsTo(g, root)) > 0 && stratOf(g) != nt {
					return "", false
				}
				foreign := false
				allInstrs(g, func(in ssa.Instruction) {
					var ops [16]*ssa.Value
					for _, op := range in.Operands(ops[:0]) {
						if *op == ssa.Value(root) && stratOf(g) != nt {
							foreign = true
						}
					}
				})
				if foreign {
					return "", false
				}
			}
			return nt.Obj().Name() + " never expands the buffer (none of its methods reaches expandDataChannel)", true
		}
		n := 0
		for _, fn := range a.ModFuncs {
			allInstrs(fn, func(in ssa.Instruction) {
				var chans []ssa.Value
				switch x := in.(type) {
				case *ssa.Send:
					chans = append(chans, x.Chan)
				case *ssa.Select:
					for _, st := range x.States {
						if st.Dir == types.SendOnly {
							chans = append(chans, st.Chan)
						}
					}
				}
				for _, ch := range chans {
					direct, cached := isDataChan(ch, dc)
					if !direct && !cached {
						continue
					}
					n++
					construct := "send(dataChan)@" + fname(fn)
					if direct {
						held := L.Held(in)
						_, ok := held[key]
						if !ok {
							// the field read under the lock into a local, the send after the unlock: a cached
							// reference (that the read itself is locked is locks/guarded-by's obligation)
							if why, okc := cachedSendOK(fn); okc {
								a.Ok(construct, in.Pos(), "send on a reference read earlier: %s", why)
								continue
							}
						}
						a.Check(ok, construct, in.Pos(), "sends on the input buffer while holding dataChanMux (an expansion cannot swap the channel under the send)", fmt.Sprintf("sends on Stream.dataChan without holding dataChanMux (lockset %s): an expansion can swap the channel and strand the row on the orphaned one", held))
					} else {
						why, ok := cachedSendOK(fn)
						if ok {
							a.Ok(construct, in.Pos(), "send on a cached reference: %s", why)
						} else {
							a.Bad(construct, in.Pos(), "%s sends on a cached reference of Stream.dataChan outside the lock: with the expand strategy the row can be stranded on a swapped-out channel", fname(fn))
						}
					}
				}
			})
		}
		if n == 0 {
			a.Und("send(dataChan)", token.NoPos, "no send on Stream.dataChan found")
		}
		// expandDataChannel is called only by the expand strategy
		for _, fn := range a.ModFuncs {
			for _, c := range callsTo(fn, exp) {
				a.Check(stratOf(fn) != nil, "call(expandDataChannel)@"+fname(fn), c.Pos(), "only a strategy grows the buffer (and a strategy that does makes no send on a cached channel reference)", fname(fn)+" calls expandDataChannel and is not part of a strategy: the strategies that send on a cached channel reference would coexist with a swap")
			}
		}
	})
	a.Rule("locks/receive-under-lock", 2, func() { a.ruleReceiveUnderLock() })
	a.Rule("flow/stop-drain-counted", 1, func() {
		// rows taken out of the input buffer by Stop are not processed: each one is counted in
		// input_dropped_count (the receive arm of the drain select increments mInputDropped)
		stop := a.Method("stream", "Stream", "Stop")
		dc := a.FieldOf(S(), "dataChan")
		dropped := a.FieldOf(S(), "mInputDropped")
		n := 0
		// the drain is in Stop or in a method of Stream that Stop calls (one level)
		scan := []*ssa.Function{stop}
		allInstrs(stop, func(in ssa.Instruction) {
			if _, isGo := in.(*ssa.Go); isGo {
				return
			}
			if h := staticCallee(in); h != nil && h.Blocks != nil && h.Pkg == stop.Pkg && h.Signature.Recv() != nil && types.Identical(derefT(h.Signature.Recv().Type()), types.Type(S())) {
				scan = append(scan, h)
			}
		})
		for _, host := range scan {
			allInstrs(host, func(in ssa.Instruction) {
				sel, ok := in.(*ssa.Select)
				if !ok {
					return
				}
				for i, st := range sel.States {
					if st.Dir != types.RecvOnly {
						continue
					}
					if d, c := isDataChan(st.Chan, dc); !d && !c {
						continue
					}
					n++
					// the block entered when state i was chosen
					counted := false
					for _, r := range *sel.Referrers() {
						ex, ok := r.(*ssa.Extract)
						if !ok || ex.Index != 0 {
							continue
						}
						for _, rr := range *ex.Referrers() {
							bo, ok := rr.(*ssa.BinOp)
							if !ok || bo.Op != token.EQL {
								continue
							}
							k, ok := bo.Y.(*ssa.Const)
							if !ok || k.Int64() != int64(i) {
								continue
							}
							for _, rrr := range *bo.Referrers() {
								if iff, ok := rrr.(*ssa.If); ok {
									for _, x := range iff.Block().Succs[0].Instrs {
										if cc := callCommon(x); cc != nil && len(cc.Args) > 0 {
											if t := TermOf(cc.Args[0], nil); strings.Contains(t.String(), dropped.Name()) && cc.StaticCallee() != nil && cc.StaticCallee().Name() == "Inc" {
												counted = true
											}
										}
									}
								}
							}
						}
					}
					a.Check(counted, fname(stop)+"#drain-counted", sel.Pos(), "each row Stop takes out of the input buffer is counted as dropped",
						"Stop receives rows from the input buffer without counting them: they are neither processed nor in input_dropped_count")
				}
			})
		}
		if n == 0 {
			a.Bad(fname(stop)+"#drain-counted", stop.Pos(), "Stop abandons the input buffer without draining it: the rows still queued are neither processed nor counted as dropped")
		}
	})
	a.Rule("flow/migration", 3, func() {
		fn := a.Method("stream", "Stream", "expandDataChannel")
		dc := a.FieldOf(S(), "dataChan")
		L := a.Locks()
		key := lockKey{"stream.Stream", "dataChanMux"}
		// the swap store
		var swap *ssa.Store
		for _, st := range storesToField(fn, dc) {
			swap = st
		}
		// the migration as a whole may be a helper that is handed the new channel (`s.installDataChan(make(…))`):
		// the rule then judges that helper, its channel parameter standing for the argument of the call
		entry := fn
		if swap == nil {
			for _, h := range a.helpersOf(entry) {
				for _, st := range storesToField(h, dc) {
					swap, fn = st, h
				}
			}
		}
		if swap == nil {
			a.Bad(fname(fn)+"#swap", fn.Pos(), "expandDataChannel never stores the new channel")
			return
		}
		swapVal := phiLeaves(swap.Val)[0]
		if prm, isPrm := swapVal.(*ssa.Parameter); isPrm && fn != entry {
			for i, q := range fn.Params {
				if q == prm {
					allInstrs(entry, func(x ssa.Instruction) {
						if c, ok := x.(*ssa.Call); ok && c.Call.StaticCallee() == fn && i < len(c.Call.Args) {
							swapVal = phiLeaves(c.Call.Args[i])[0]
						}
					})
				}
			}
		}
		mk, isMk := swapVal.(*ssa.MakeChan)
		a.Check(isMk && L.Held(swap)[key] == 'W', fname(fn)+"#swap-under-lock", swap.Pos(), "the new channel is installed under the write lock", "the channel swap is not done under dataChanMux.Lock with a freshly made channel")
		// drain: a select receiving from the old channel (loaded from dataChan under the lock), whose received value is sent to the new channel
		okDrain, okOffer := false, false
		// the migration loop is in expandDataChannel or in a helper it calls with the two channels: a
		// channel parameter of the helper stands for the argument of that call
		hosts := append([]*ssa.Function{fn}, a.helpersOf(fn)...)
		resolve := func(v ssa.Value) ssa.Value {
			for {
				if ct, ok := v.(*ssa.ChangeType); ok {
					v = ct.X // a conversion to a directional channel type is the same channel
					continue
				}
				break
			}
			prm, ok := v.(*ssa.Parameter)
			if !ok {
				return v
			}
			idx := -1
			for i, q := range prm.Parent().Params {
				if q == prm {
					idx = i
				}
			}
			var out ssa.Value
			for _, caller := range []*ssa.Function{fn, entry} {
				allInstrs(caller, func(x ssa.Instruction) {
					if c, ok := x.(*ssa.Call); ok && c.Call.StaticCallee() == prm.Parent() && idx >= 0 && idx < len(c.Call.Args) {
						out = c.Call.Args[idx]
					}
				})
			}
			if out == nil {
				return v
			}
			// (a conversion to a directional channel type is the same channel)
			for {
				if ct, ok := out.(*ssa.ChangeType); ok {
					out = ct.X
					continue
				}
				break
			}
			if l := phiLeaves(out); len(l) == 1 {
				out = l[0]
			}
			return out
		}
		for _, host := range hosts {
			allInstrs(host, func(in ssa.Instruction) {
				sel, ok := in.(*ssa.Select)
				if !ok {
					return
				}
				for _, st := range sel.States {
					if st.Dir == types.RecvOnly {
						if t := TermOf(resolve(st.Chan), nil); t.Kind == "field" && t.Field == dc && L.Held(in)[key] == 'W' {
							okDrain = true
							// received value -> some select send state on the new channel
							for _, r := range *sel.Referrers() {
								ex, ok := r.(*ssa.Extract)
								if !ok || ex.Index < 2 {
									continue
								}
								for _, rr := range *ex.Referrers() {
									if s2, ok := rr.(*ssa.Select); ok {
										for _, st2 := range s2.States {
											if st2.Dir == types.SendOnly && st2.Send == ssa.Value(ex) && isMk && resolve(st2.Chan) == ssa.Value(mk) {
												okOffer = true
											}
										}
									}
									if s2, ok := rr.(*ssa.Send); ok && s2.X == ssa.Value(ex) && isMk && resolve(s2.Chan) == ssa.Value(mk) {
										okOffer = true
									}
								}
							}
						}
					}
				}
			})
		}
		// the drain ends only on what the attempt to receive found (channel empty, or the documented
		// migration timeout): every edge out of the drain loop starts in a block dominated by the select
		// that receives from the old channel — not at a loop test made before trying (a row count sampled
		// before the write lock was taken leaves the rows enqueued since then behind)
		var drainLoops []*loopInfo
		for _, host := range hosts {
			drainLoops = append(drainLoops, sccLoops(host)...)
		}
		for _, lp := range drainLoops {
			var drainSel *ssa.Select
			for b := range lp.Blocks {
				for _, in := range b.Instrs {
					if sel, ok := in.(*ssa.Select); ok {
						for _, st := range sel.States {
							if st.Dir == types.RecvOnly {
								if t := TermOf(resolve(st.Chan), nil); t.Kind == "field" && t.Field == dc {
									drainSel = sel
								}
							}
						}
					}
				}
			}
			if drainSel == nil {
				continue
			}
			// newChannelFull: the exit is taken when the new, still private channel cannot take another row:
			// `k < cap(new)` / `len(new) < cap(new)` found false, k counting the rows sent into it (0, +1 per
			// send). That is a limit of the destination, not a decision about the source: nothing the loop could
			// do instead would move the remaining rows (a send would block for ever under the lock).
			newChannelFull := func(b *ssa.BasicBlock, sc *ssa.BasicBlock) bool {
				iff, ok := b.Instrs[len(b.Instrs)-1].(*ssa.If)
				if !ok || !isMk {
					return false
				}
				bo, ok := iff.Cond.(*ssa.BinOp)
				if !ok || bo.Op != token.LSS || b.Succs[1] != sc {
					return false
				}
				capOf, ok := bo.Y.(*ssa.Call)
				if !ok {
					return false
				}
				cc, ok := isBuiltinCall(capOf, "cap")
				if !ok || resolve(cc.Args[0]) != ssa.Value(mk) {
					return false
				}
				if l, ok := bo.X.(*ssa.Call); ok {
					if lc, ok := isBuiltinCall(l, "len"); ok && resolve(lc.Args[0]) == ssa.Value(mk) {
						return true
					}
				}
				// a counter: phi [0, k+1] whose increment sits in a block that sends to the new channel
				phi, ok := bo.X.(*ssa.Phi)
				if !ok {
					return false
				}
				for i, e := range phi.Edges {
					if lp.Blocks[phi.Block().Preds[i]] {
						ok2 := false
						for _, l := range phiLeaves(e) {
							if l == ssa.Value(phi) {
								continue
							}
							inc, isInc := l.(*ssa.BinOp)
							if !isInc || inc.Op != token.ADD || inc.X != ssa.Value(phi) || !isConstInt(inc.Y, 1) {
								return false
							}
							for _, in := range inc.Block().Instrs {
								if sd, isSend := in.(*ssa.Send); isSend && resolve(sd.Chan) == ssa.Value(mk) {
									ok2 = true
								}
							}
						}
						if !ok2 {
							return false
						}
					} else if !isZeroConst(e) {
						return false
					}
				}
				return true
			}
			// flagExit: the exit is taken on a boolean loop variable (`for going := true; going; { … going = false }`)
			// and every assignment of the value that leaves the loop is made after the attempt to receive.
			flagExit := func(b *ssa.BasicBlock, sc *ssa.BasicBlock) bool {
				iff, ok := b.Instrs[len(b.Instrs)-1].(*ssa.If)
				if !ok {
					return false
				}
				want := b.Succs[0] == sc
				cond := iff.Cond
				if u, ok := cond.(*ssa.UnOp); ok && u.Op == token.NOT {
					cond, want = u.X, !want
				}
				phi, ok := cond.(*ssa.Phi)
				if !ok {
					return false
				}
				seen := map[*ssa.Phi]bool{}
				var walk func(p *ssa.Phi) bool
				walk = func(p *ssa.Phi) bool {
					if seen[p] {
						return true
					}
					seen[p] = true
					for i, e := range p.Edges {
						pred := p.Block().Preds[i]
						switch x := e.(type) {
						case *ssa.Const:
							if x.Value == nil || constant.BoolVal(x.Value) != want {
								continue
							}
							if !lp.Blocks[pred] || !(drainSel.Block() == pred || drainSel.Block().Dominates(pred)) {
								return false
							}
						case *ssa.Phi:
							if !walk(x) {
								return false
							}
						default:
							return false
						}
					}
					return true
				}
				return walk(phi)
			}
			var bad *ssa.BasicBlock
			for b := range lp.Blocks {
				for _, sc := range b.Succs {
					if !lp.Blocks[sc] && !(drainSel.Block() == b || drainSel.Block().Dominates(b)) && !newChannelFull(b, sc) && !flagExit(b, sc) {
						bad = b
					}
				}
			}
			pos := drainSel.Pos()
			if bad != nil {
				pos = bad.Instrs[len(bad.Instrs)-1].Pos()
			}
			a.Check(bad == nil, fname(fn)+"#drain-until-empty", pos, "the drain loop is left only after an attempt to receive from the old channel (empty, or timeout)",
				"the drain loop can be left on a test made before trying to receive from the old channel: rows still buffered there (enqueued after the count was sampled) stay in the abandoned channel, neither processed nor counted")
		}
		a.Check(okDrain, fname(fn)+"#drain-under-lock", fn.Pos(), "buffered rows are received from the old channel while the write lock is held", "the old channel is not drained under dataChanMux.Lock: producers could enqueue into it during migration")
		a.Check(okOffer, fname(fn)+"#offer-each-row", fn.Pos(), "every row taken from the old channel is offered to the new one", "a row received from the old channel is not sent to the new channel: it would be lost without being counted")
		// swap after drain: no receive from the old channel reachable after any store to dataChan
		var hit ssa.Instruction
		for _, anySt := range storesToField(fn, dc) {
			if h := drainAfter(anySt, dc); h != nil {
				hit = h
			}
		}
		_ = func() ssa.Instruction {
			return reachableAfter(swap, func(in ssa.Instruction) bool {
				sel, ok := in.(*ssa.Select)
				if !ok {
					return false
				}
				for _, st := range sel.States {
					if st.Dir == types.RecvOnly {
						if t := TermOf(st.Chan, nil); t.Kind == "field" && t.Field == dc {
							return true
						}
					}
				}
				return false
			}, nil)
		}
		a.Check(hit == nil, fname(fn)+"#swap-after-drain", swap.Pos(), "the swap happens after the drain loop", "rows are still drained after the new channel was installed")
		// once a row has been moved into the new channel, the new channel is installed on every way out: a return
		// that leaves it behind (an "expansion abandoned" test placed after the migration) discards the rows it holds
		var left ssa.Instruction
		if isMk {
			for _, host := range hosts {
				if host != fn {
					continue // a helper only fills; the install is judged where the helper returns to
				}
				allInstrs(host, func(in ssa.Instruction) {
					fills := false
					switch x := in.(type) {
					case *ssa.Send:
						fills = resolve(x.Chan) == ssa.Value(mk)
					case *ssa.Select:
						for _, st := range x.States {
							if st.Dir == types.SendOnly && resolve(st.Chan) == ssa.Value(mk) {
								fills = true
							}
						}
					case *ssa.Call:
						// the migration done by a helper that is handed the new channel
						if h := x.Call.StaticCallee(); h != nil && h != fn {
							for _, arg := range x.Call.Args {
								if arg == ssa.Value(mk) {
									for _, hh := range hosts {
										if hh == h {
											fills = true
										}
									}
								}
							}
						}
					}
					if !fills || left != nil {
						return
					}
					if pathFromTo(in, func(y ssa.Instruction) bool { _, isRet := y.(*ssa.Return); return isRet }, nil,
						func(y ssa.Instruction) bool {
							st, ok := y.(*ssa.Store)
							return ok && fieldAddrIs(st.Addr, dc) && resolve(phiLeaves(st.Val)[0]) == ssa.Value(mk)
						}) {
						left = in
					}
				})
			}
		}
		pos := swap.Pos()
		if left != nil {
			pos = left.Pos()
		}
		a.Check(left == nil, fname(fn)+"#installed-after-fill", pos, "after a row was moved into the new channel every way out installs that channel",
			"a path returns after rows were moved into the new channel without installing it: the migrated rows are abandoned, neither processed nor counted")
	})
	a.Rule("flow/exactly-one-outcome", 3, func() {
		for _, typ := range []string{"BlockingStrategy", "ExpansionStrategy", "DropStrategy"} {
			a.ruleStrategyOutcome(a.Method("stream", typ, "ProcessData"), typ == "BlockingStrategy")
		}
	})
	a.Rule("ordtab/expansion-ceiling", 2, func() { a.ruleExpansionCeiling() })
	a.Rule("flow/fresh-channel-per-iteration", 1, func() { a.ruleFreshChannelPerIteration() })
	a.Rule("flow/received-row-processed", 1, func() { a.ruleReceivedRowProcessed() })
	a.Rule("flow/count-before-strategy", 1, func() {
		fn := a.Method("stream", "Stream", "Emit")
		isInc := func(in ssa.Instruction) bool {
			c, ok := in.(*ssa.Call)
			if !ok || c.Call.StaticCallee() == nil || c.Call.StaticCallee().Name() != "Inc" || len(c.Call.Args) == 0 {
				return false
			}
			return isFieldOf(TermOf(c.Call.Args[0], nil), "stream.Stream", "mInput")
		}
		isStrat := func(in ssa.Instruction) bool {
			c := callCommon(in)
			return c != nil && c.IsInvoke() && c.Method.Name() == "ProcessData"
		}
		n := a.ruleDominatedBy(fn, fname(fn)+"#count-then-dispatch", isInc, isStrat, "input_count is incremented before the overflow strategy decides", "a row can be dispatched without input_count being incremented: the conservation count would be off")
		if n == 0 {
			a.Bad(fname(fn)+"#count-then-dispatch", fn.Pos(), "Emit does not dispatch to the strategy")
		}
	})
}

// ruleStrategyOutcome: every path through ProcessData ends after exactly one of S (enqueued),
// D (counted as dropped), X (stop observed); no enqueue after an enqueue.
func (a *A) ruleStrategyOutcome(fn *ssa.Function, checkNoDropWithoutTimeout bool) {
	dc := a.FieldOf(a.Named("stream", "Stream"), "dataChan")
	classify := func(in ssa.Instruction, w *Walker) string {
		// D: mInputDropped.Inc()
		if c, ok := in.(*ssa.Call); ok {
			if cal := c.Call.StaticCallee(); cal != nil && cal.Name() == "Inc" && len(c.Call.Args) > 0 && isFieldOf(TermOf(c.Call.Args[0], nil), "stream.Stream", "mInputDropped") {
				return "D"
			}
			// the same through a method value (`drop := s.mInputDropped.Inc` … `drop()`)
			if name, recv := boundMethodCall(&c.Call); name == "Inc" && recv != nil && isFieldOf(TermOf(recv, nil), "stream.Stream", "mInputDropped") {
				return "D"
			}
		}
		return ""
	}
	// helpers of package stream that enqueue, count or observe Stop on the strategy's behalf are
	// summarised by the same walk: one continuation per (events, boolean results) they can end with
	var walkOutcomes func(f *ssa.Function, mode string) []Outcome
	// curMode: the assumption of the walk in progress holds inside the helpers too (a helper that reads
	// blockingTimeout is summarised under `blockingTimeout <= 0` when the caller is)
	curMode := "any"
	type sumKey struct {
		f    *ssa.Function
		mode string
	}
	sumMemo := map[sumKey][]CallSummary{}
	sumBusy := map[*ssa.Function]bool{}
	summarise := func(c *ssa.Call) []CallSummary {
		f := c.Call.StaticCallee()
		if f == nil || f.Blocks == nil || f.Pkg != fn.Pkg || sumBusy[f] {
			return nil
		}
		if v, ok := sumMemo[sumKey{f, curMode}]; ok {
			return v
		}
		sumBusy[f] = true
		var out []CallSummary
		seen := map[string]bool{}
		any := false
		for _, o := range walkOutcomes(f, curMode) {
			if o.Ended == "overflow" {
				out, any = nil, false
				break
			}
			if o.Ended != "return" {
				continue
			}
			if o.Tag != "" {
				any = true
			}
			k := o.Tag + fmt.Sprint(o.Rets)
			if o.RetI != nil {
				k += fmt.Sprint("#", *o.RetI)
			}
			k += fmt.Sprint("@", o.RecvParams)
			if !seen[k] {
				seen[k] = true
				out = append(out, CallSummary{Tag: o.Tag, Rets: o.Rets, RetI: o.RetI, RecvParams: o.RecvParams})
			}
		}
		sumBusy[f] = false
		if !any {
			out = nil // no event inside: an ordinary call
		}
		sumMemo[sumKey{f, curMode}] = out
		return out
	}
	// a helper that is not handed the row cannot enqueue or count THIS row: what it sends or counts
	// concerns other rows (expandDataChannel moves the rows of the old buffer and accounts for those
	// it has to abandon). Its S / D events are not outcomes of the row being emitted.
	summariseFor := func(c *ssa.Call) []CallSummary {
		out := summarise(c)
		if out == nil {
			return nil
		}
		passesRow := false
		for _, arg := range c.Call.Args {
			for _, l := range phiLeaves(arg) {
				if p, ok := l.(*ssa.Parameter); ok {
					if _, isMap := p.Type().Underlying().(*types.Map); isMap {
						passesRow = true
					}
				}
			}
		}
		if passesRow {
			return out
		}
		var stripped []CallSummary
		seen := map[string]bool{}
		for _, cs := range out {
			t := strings.NewReplacer("S", "", "D", "").Replace(cs.Tag)
			k := t + fmt.Sprint(cs.Rets)
			if cs.RetI != nil {
				k += fmt.Sprint("#", *cs.RetI)
			}
			if !seen[k] {
				seen[k] = true
				stripped = append(stripped, CallSummary{Tag: t, Rets: cs.Rets, RetI: cs.RetI, RecvParams: cs.RecvParams})
			}
		}
		return stripped
	}
	// edge events: computed when entering a block through the true/false edge of an If
	edgeEvent := func(iff *ssa.If, taken bool) string {
		v := iff.Cond
		sense := taken
		for {
			if u, ok := v.(*ssa.UnOp); ok && u.Op == token.NOT {
				v = u.X
				sense = !sense
				continue
			}
			break
		}
		switch x := v.(type) {
		case *ssa.Call:
			_ = sense // helpers (safeSendToDataChan, ...) are summarised at the call, see summarise
		case *ssa.BinOp:
			if x.Op == token.EQL || x.Op == token.NEQ {
				eq := (x.Op == token.EQL) == sense
				// select index == k
				if ex, ok := x.X.(*ssa.Extract); ok && ex.Index == 0 {
					if sel, ok := ex.Tuple.(*ssa.Select); ok && eq {
						if k, ok := x.Y.(*ssa.Const); ok {
							st := sel.States[int(k.Int64())]
							if st.Dir == types.SendOnly {
								if d, c := isDataChan(st.Chan, dc); d || c {
									return "S"
								}
							}
							if st.Dir == types.RecvOnly && isFieldOf(TermOf(st.Chan, nil), "stream.Stream", "done") {
								return "X"
							}
						}
					}
				}
				// stopped == 1
				if c, ok := x.X.(*ssa.Call); ok && eq {
					if cal := c.Call.StaticCallee(); cal != nil && cal.Name() == "LoadInt32" && isFieldOf(TermOf(c.Call.Args[0], nil), "stream.Stream", "stopped") {
						return "X"
					}
				}
				// dataChan == nil
				if k, ok := x.Y.(*ssa.Const); ok && k.Value == nil && eq {
					if d, c := isDataChan(x.X, dc); d || c {
						return "X"
					}
				}
			}
		}
		return ""
	}
	walkOutcomes = func(fn *ssa.Function, mode string) []Outcome {
		env := &Env{a: a, Rank: map[string]int{}, Flags: map[string]bool{}, Assume: func(t *Term, v ssa.Value) Tri {
			if mode == "no-timeout" {
				// blockingTimeout <= 0, however the comparison with zero is written
				if bo, ok := v.(*ssa.BinOp); ok && isFieldOf(TermOf(bo.X, nil), "stream.Stream", "blockingTimeout") && isZeroConst(bo.Y) {
					switch bo.Op {
					case token.LEQ:
						return T
					case token.GTR:
						return F
					}
				}
			}
			return U
		}}
		w := NewWalker(env, nil)
		w.RetIdx = -1
		if res := fn.Signature.Results(); res.Len() == 1 && isIntType(res.At(0).Type()) {
			w.RetIdx = 0 // an outcome code: carried into the caller's path
		}
		w.AllRets = true
		w.CallFork = summariseFor
		w.Visits = 2
		w.Target = func(in ssa.Instruction, w *Walker) bool {
			if in == in.Block().Instrs[0] {
				// entering a block: event of the edge taken
				b := in.Block()
				if w.lastPred != nil {
					if iff, ok := w.lastPred.Instrs[len(w.lastPred.Instrs)-1].(*ssa.If); ok && w.lastPred.Succs[0] != w.lastPred.Succs[1] {
						if e := edgeEvent(iff, w.lastPred.Succs[0] == b); e != "" {
							w.Tag(w.cur.tag + e)
						}
					}
				}
			}
			if e := classify(in, w); e != "" {
				w.Tag(w.cur.tag + e)
			}
			return false
		}
		return w.Run(fn.Blocks[0], nil)
	}
	for _, mode := range []string{"any", "no-timeout"} {
		if mode == "no-timeout" && !checkNoDropWithoutTimeout {
			continue
		}
		curMode = mode
		outs := walkOutcomes(fn, mode)
		seen := map[string]bool{}
		bad := ""
		for _, o := range outs {
			if o.Ended == "overflow" {
				bad = "path budget exceeded"
				break
			}
			if o.Ended != "return" {
				continue
			}
			seen[o.Tag] = true
			// X (Stop observed / no channel) is an observation, S and D are outcomes: every path ends with
			// exactly one outcome — a row whose Emit returns because of Stop is counted as dropped
			nS, nD := strings.Count(o.Tag, "S"), strings.Count(o.Tag, "D")
			switch {
			case len(o.Tag) == 0:
				bad = "a path returns without enqueuing the row or counting it as dropped: the row vanishes uncounted"
			case nS == 0 && nD == 0:
				bad = "a path returns after observing Stop without counting the row as dropped: input_count was incremented, the row is never processed, and processed + dropped no longer accounts for every Emit"
			case nS > 1:
				bad = "a path enqueues the row twice"
			case nS > 0 && nD > 0:
				bad = "a path both enqueues the row and counts it as dropped"
			case nD > 1:
				bad = "a path counts the row as dropped twice"
			}
			if mode == "no-timeout" && strings.Contains(o.Tag, "D") && !strings.Contains(o.Tag, "X") {
				bad = "with blockingTimeout <= 0 a path increments input_dropped_count: the block strategy without timeout must never drop"
			}
		}
		var tags []string
		for t := range seen {
			tags = append(tags, t)
		}
		sort.Strings(tags)
		construct := fname(fn) + "#one-outcome"
		if mode == "no-timeout" {
			construct = fname(fn) + "#no-drop-without-timeout"
		}
		if bad == "" && len(tags) == 0 {
			bad = "no returning path found"
		}
		a.Check(bad == "", construct, fn.Pos(), fmt.Sprintf("every path ends after exactly one of enqueued(S) / counted dropped(D) / stop observed(X); path outcomes seen: %v", tags), bad+fmt.Sprintf(" (outcomes seen: %v)", tags))
	}
}

func (a *A) ruleExpansionCeiling() {
	fn := a.Method("stream", "Stream", "expandDataChannel")
	var mk *ssa.MakeChan
	allInstrs(fn, func(in ssa.Instruction) {
		if m, ok := in.(*ssa.MakeChan); ok {
			mk = m
		}
	})
	if mk == nil {
		a.Und(fname(fn)+"#ceiling", fn.Pos(), "no make(chan) found")
		return
	}
	role := func(t *Term) string {
		if isFieldOf(t, "types.BufferConfig", "MaxBufferSize") {
			return "Max"
		}
		if t.Kind == "call" && t.Name == "cap" {
			return "old"
		}
		if t.Kind == "const" && t.Const != nil && t.Const.Kind() == constant.Int && t.Const.ExactString() == "0" {
			return "Z"
		}
		return ""
	}
	// growth refused when oldCap >= Max (Max set)
	spec := OrdSpec{Roles: []string{"old", "Max", "Z"}, Role: role,
		Invariant: func(r map[string]int, _ map[string]bool) bool { return r["old"] > r["Z"] }}
	a.OnlyIf(fname(fn)+"#no-growth-at-ceiling", mk.Pos(), "a larger channel is made only while the capacity is below MaxBufferSize (when set)", spec,
		fn.Blocks[0], nil, nil,
		func(in ssa.Instruction, _ *Walker) bool { return in == ssa.Instruction(mk) },
		func(r map[string]int, _ map[string]bool) bool { return r["Max"] <= r["Z"] || r["old"] < r["Max"] })
	// the new capacity never exceeds Max
	bad := ""
	checked := 0
	for _, r := range weakOrderings([]string{"N", "Max", "Z"}) {
		if r["Max"] <= r["Z"] {
			continue
		}
		env := &Env{a: a, Rank: r, Flags: map[string]bool{}, Role: func(t *Term) string {
			if rr := role(t); rr == "Max" || rr == "Z" {
				return rr
			}
			if t.Kind == "bin" && strings.Contains(t.String(), "cap(") {
				return "N" // a candidate capacity computed from the old capacity
			}
			return ""
		}}
		w := NewWalker(env, nil)
		w.RetIdx = -1
		w.Target = func(in ssa.Instruction, w *Walker) bool {
			if in != ssa.Instruction(mk) {
				return false
			}
			t := w.Term(mk.Size)
			rr := env.Role(t)
			if rr == "" {
				// the size on this path is some other candidate: conservatively treated as N
				rr = "N"
			}
			if r[rr] > r["Max"] {
				bad = fmt.Sprintf("make(chan, %s) is reached with the new capacity above MaxBufferSize (ordering %s)", t, fmtOrdering(r, nil))
			}
			return true
		}
		w.Run(fn.Blocks[0], nil)
		checked++
	}
	a.Check(bad == "", fname(fn)+"#capacity-capped", mk.Pos(), fmt.Sprintf("the new capacity is at most MaxBufferSize on every path (%d orderings)", checked), "expansion can exceed the configured maximum: "+bad)
}

// drainAfter: a receive from Stream.dataChan reachable after the given store.
func drainAfter(st *ssa.Store, dc *types.Var) ssa.Instruction {
	return reachableAfter(st, func(in ssa.Instruction) bool {
		sel, ok := in.(*ssa.Select)
		if !ok {
			return false
		}
		for _, s := range sel.States {
			if s.Dir == types.RecvOnly {
				if t := TermOf(s.Chan, nil); t.Kind == "field" && t.Field == dc {
					return true
				}
			}
		}
		return false
	}, nil)
}

// ruleReceiveUnderLock: an expansion moves the buffered rows from the old input channel to the new one
// under dataChanMux.Lock. Rows keep their order only if nobody else can receive from the old channel
// while that happens: every receive from Stream.dataChan (directly or through a reference read from
// the field) holds dataChanMux, shared or exclusive. A consumer that reads the reference under the
// lock and receives after releasing it can take a row out of the middle of a migration and process it
// before the older rows being moved.
func (a *A) ruleReceiveUnderLock() int {
	S := a.Named("stream", "Stream")
	dc := a.FieldOf(S, "dataChan")
	L := a.Locks()
	key := lockKey{"stream.Stream", "dataChanMux"}
	n := 0
	for _, fn := range a.ModFuncs {
		allInstrs(fn, func(in ssa.Instruction) {
			var chans []ssa.Value
			switch x := in.(type) {
			case *ssa.UnOp:
				if x.Op == token.ARROW {
					chans = append(chans, x.X)
				}
			case *ssa.Select:
				for _, st := range x.States {
					if st.Dir == types.RecvOnly {
						chans = append(chans, st.Chan)
					}
				}
			}
			for _, ch := range chans {
				direct, cached := isDataChan(ch, dc)
				if !direct && !cached {
					continue
				}
				n++
				held := L.Held(in)
				_, ok := held[key]
				a.Check(ok, "recv(dataChan)@"+fname(fn), in.Pos(),
					"receives from the input buffer while holding dataChanMux: not concurrent with a migration",
					fmt.Sprintf("receives from the input buffer without holding dataChanMux (lockset %s): it can take a row from the old channel while an expansion is moving older rows to the new one, and that row is processed first", held))
			}
		})
	}
	return n
}

// ruleReceivedRowProcessed: a row that the processing goroutine has taken out of the input channel
// is out of reach of Stop's accounting (Stop counts what is still in the channel). It must therefore
// be processed: in the consumer (DataProcessor.Process, the literals and package methods it calls
// per iteration), after every receive from Stream.dataChan that delivered a row, processItem runs
// before the goroutine receives again or returns. Rows may be collected into a batch first only if
// the loop that hands the batch to processItem cannot be left early.
func (a *A) ruleReceivedRowProcessed() int {
	proc := a.Method("stream", "DataProcessor", "Process")
	item := a.Method("stream", "DataProcessor", "processItem")
	dc := a.FieldOf(a.Named("stream", "Stream"), "dataChan")
	hosts := []*ssa.Function{proc}
	seen := map[*ssa.Function]bool{proc: true}
	for i := 0; i < len(hosts) && i < 12; i++ {
		allInstrs(hosts[i], func(in ssa.Instruction) {
			if _, isGo := in.(*ssa.Go); isGo {
				return
			}
			g := staticCallee(in)
			if g == nil || g.Blocks == nil || seen[g] || g == item || !(inlinePartOf(g, hosts[i]) || ssaPkgOf(g) == ssaPkgOf(proc)) {
				return
			}
			// only callees that themselves receive
			recvs := false
			allInstrs(g, func(x ssa.Instruction) {
				if sel, ok := x.(*ssa.Select); ok {
					for _, st := range sel.States {
						if st.Dir == types.RecvOnly {
							recvs = true
						}
					}
				}
				if u, ok := x.(*ssa.UnOp); ok && u.Op == token.ARROW {
					recvs = true
				}
			})
			if recvs {
				seen[g] = true
				hosts = append(hosts, g)
			}
		})
	}
	isItem := func(in ssa.Instruction) bool { return staticCallee(in) == item }
	n := 0
	for _, h := range hosts {
		allInstrs(h, func(in ssa.Instruction) {
			sel, ok := in.(*ssa.Select)
			if !ok {
				return
			}
			for si, st := range sel.States {
				if st.Dir != types.RecvOnly {
					continue
				}
				isData := false
				for _, leaf := range phiLeaves(st.Chan) {
					if d, c := isDataChan(leaf, dc); d || c {
						isData = true
					}
					if p, isParam := leaf.(*ssa.Parameter); isParam && h != proc {
						// a helper that is handed the channel it drains (same element type as dataChan)
						if pc, ok := p.Type().Underlying().(*types.Chan); ok {
							if dcT, ok := dc.Type().Underlying().(*types.Chan); ok && types.Identical(pc.Elem(), dcT.Elem()) {
								isData = true
							}
						}
					}
				}
				if !isData {
					continue
				}
				n++
				construct := fmt.Sprintf("%s#recv[%d]", fname(h), si)
				// the received value
				var recvVal ssa.Value
				for _, r := range *sel.Referrers() {
					if ex, ok := r.(*ssa.Extract); ok && ex.Index >= 2 {
						k := 0
						for j := 0; j < si; j++ {
							if sel.States[j].Dir == types.RecvOnly {
								k++
							}
						}
						if ex.Index == 2+k {
							recvVal = ex
						}
					}
				}
				// collected into a batch? then the batch's delivery loop must be tight
				batched := false
				if recvVal != nil {
					for _, r := range *recvVal.Referrers() {
						if c, ok := r.(*ssa.Call); ok {
							if _, isAp := isBuiltinCall(c, "append"); isAp {
								batched = true
							}
						}
						if stv, ok := r.(*ssa.Store); ok && stv.Val == recvVal {
							if _, isIA := stv.Addr.(*ssa.IndexAddr); isIA {
								batched = true
							}
						}
					}
				}
				if batched {
					okLoop := false
					why := "no loop that hands the collected rows to processItem was found"
					for _, l := range rangeLoops(proc) {
						calls := false
						for b := range l.Blocks {
							for _, x := range b.Instrs {
								if isItem(x) {
									calls = true
								}
							}
						}
						if !calls {
							continue
						}
						if bad := loopEarlyExit(l, nil); bad != nil {
							why = "the loop that hands the collected rows to processItem can be left early (" + a.pos(bad.Pos()) + ")"
						} else {
							okLoop = true
						}
					}
					a.Check(okLoop, construct, in.Pos(), "rows are collected into a batch and every row of the batch is handed to processItem",
						"rows are taken out of the input channel into a batch and "+why+": the rows left in the batch are neither processed nor counted by Stop (it only counts what is still in the channel)")
					continue
				}
				// direct form: from the successful receive, processItem before the next receive / return
				isEnd := func(x ssa.Instruction) bool {
					if _, isRet := x.(*ssa.Return); isRet {
						return true
					}
					return x == ssa.Instruction(sel)
				}
				idxV := func() ssa.Value {
					for _, r := range *sel.Referrers() {
						if ex, ok := r.(*ssa.Extract); ok && ex.Index == 0 {
							return ex
						}
					}
					return nil
				}()
				okV := func() ssa.Value {
					for _, r := range *sel.Referrers() {
						if ex, ok := r.(*ssa.Extract); ok && ex.Index == 1 {
							return ex
						}
					}
					return nil
				}()
				escape := pathFromTo(sel, isEnd, func(v ssa.Value) Tri {
					// this case fired and delivered a row
					if bo, ok := v.(*ssa.BinOp); ok && bo.Op == token.EQL && bo.X == idxV {
						if k, ok := bo.Y.(*ssa.Const); ok && k.Value != nil {
							return tri(int(k.Int64()) == si)
						}
					}
					if v == okV && okV != nil {
						return T
					}
					return U
				}, isItem)
				if h != proc && escape {
					// the helper returns the row to the loop: what its boolean results are when a row was
					// delivered (`return d, ok, !ok`), and with those, the call site in Process
					deliveredAssume := func(v ssa.Value) Tri {
						if bo, ok := v.(*ssa.BinOp); ok && bo.Op == token.EQL && bo.X == idxV {
							if k, ok := bo.Y.(*ssa.Const); ok && k.Value != nil {
								return tri(int(k.Int64()) == si)
							}
						}
						if v == okV && okV != nil {
							return T
						}
						return U
					}
					results := map[int]Tri{}
					first := true
					for _, b := range h.Blocks {
						ret, isRet := b.Instrs[len(b.Instrs)-1].(*ssa.Return)
						if !isRet {
							continue
						}
						if !pathFromTo(sel, func(x ssa.Instruction) bool { return x == ssa.Instruction(ret) }, deliveredAssume, nil) {
							continue
						}
						for i, rv := range ret.Results {
							if !isBool(rv.Type()) {
								continue
							}
							val := U
							neg := false
							x := rv
							// named results of a function with a defer are spilled: the value is what the
							// returning block stored into the result variable last
							if ld, ok := x.(*ssa.UnOp); ok && ld.Op == token.MUL {
								if al, ok := ld.X.(*ssa.Alloc); ok {
									for _, bi := range b.Instrs {
										if stv, ok := bi.(*ssa.Store); ok && stv.Addr == ssa.Value(al) {
											x = stv.Val
										}
									}
								}
							}
							for {
								if u, ok := x.(*ssa.UnOp); ok && u.Op == token.NOT {
									x, neg = u.X, !neg
									continue
								}
								break
							}
							if x == okV && okV != nil {
								val = T
							} else if k, ok := constBool(x); ok {
								val = tri(k)
							}
							if neg {
								val = val.not()
							}
							if first {
								results[i] = val
							} else if results[i] != val {
								results[i] = U
							}
						}
						first = false
					}
					callsOK := true
					for _, c := range callsTo(proc, h) {
						c := c
						if pathFromTo(c, func(x ssa.Instruction) bool {
							if _, isRet := x.(*ssa.Return); isRet {
								return true
							}
							return x == c
						}, func(v ssa.Value) Tri {
							if ex, ok := v.(*ssa.Extract); ok && ex.Tuple == ssa.Value(c.(*ssa.Call)) {
								if r, known := results[ex.Index]; known {
									return r
								}
							}
							return U
						}, isItem) {
							callsOK = false
						}
					}
					escape = !callsOK
				}
				a.Check(!escape, construct, in.Pos(), "after a row was received, processItem runs before the goroutine receives again or returns",
					"a row received from the input channel can be dropped: a path leads from the receive to the next receive (or out of the goroutine) without processItem - the row is neither processed nor counted as dropped")
			}
		})
	}
	if n == 0 {
		a.anchorFail("no receive from Stream.dataChan found in the processing goroutine")
	}
	return n
}


// boundMethodCall: cc calls a method value (`f := x.M` … `f()`); the method's name and the receiver it was bound to.
func boundMethodCall(cc *ssa.CallCommon) (string, ssa.Value) {
	var mc *ssa.MakeClosure
	for _, l := range phiLeaves(cc.Value) {
		m, ok := l.(*ssa.MakeClosure)
		if !ok || (mc != nil && m != mc) {
			return "", nil
		}
		mc = m
	}
	if mc == nil || len(mc.Bindings) != 1 {
		return "", nil
	}
	w, _ := mc.Fn.(*ssa.Function)
	if w == nil || !strings.HasPrefix(w.Synthetic, "bound method wrapper") {
		return "", nil
	}
	return strings.TrimSuffix(w.Name(), "$bound"), mc.Bindings[0]
}
