package main

import (
	"fmt"
	"go/token"
	"strings"

	"golang.org/x/tools/go/ssa"
)

func init() {
	register(&Prop{
		ID:         "C15",
		Decided:    "isolation and lifecycle only: (1) the partition key encoder of the MATCH_RECOGNIZE runner is typed and length-prefixed (uniquely decodable); (2) all partition state of cep.Engine (partMap, lru, seq) is accessed only under e.mu, the sweeper included; (3) per-partition state is reached only through getPartition(key): partMap is read/written only by getPartition and evictIfNeeded, and Process steps exactly the partition it looked up with the key it was given; (4) partitions are evicted only when lru.Len() > maxPart and the evicted one is lru.Back(); (5) Stop order: waitLifecycle -> cep.Stop -> engine.Flush -> synchronous flush delivery, flush rows projected like live matches (shared with C18); (5b) the scratch map that DEFINE/MEASURES evaluation takes from the process-wide pool is emptied before its first write (or before every exit), so no row's fields leak into the evaluation of another row, partition or instance; (6) the live path feeds the engine only rows that passed JOIN enrichment and WHERE, with the runner's own partition key. Also (match bookkeeping, structural necessary conditions only): the row number passed to step is a counter of the stepped partition (skipTo computes startSeq+offset); on every path through the loops over p.runs in step and sweep a run that may be accepting is recorded/kept unless hasAccept is false, a successor is accepting or the length guard is hit; partition fields are accessed under Engine.mu; in-place filtering of p.runs appends at most one element per element read. Also: a pending start is emitted only after an ordered comparison with the surviving runs' starts (leftmost first); an in-place compaction is committed on every path. Also: a store into partition.pending (the greedy completions waiting per start row) is unreachable, with the slot occupied, for one outcome of a comparison of the candidates' row counts (flow/pending-keeps-longest): map order cannot decide which of two same-start completions is reported.",
		NotDecided: "apart from the two bookkeeping conditions above, everything about which matches are reported: NFA construction, greedy/reluctant choice, SKIP modes, WITHIN, MEASURES, MATCH_NUMBER — match semantics are value-level.",
		Run:        runC15,
	})
}

func runC15(a *A) {
	a.Rule("shape/partition-local-seq", 1, func() { a.ruleCepSeqPerPartition() })
	a.Rule("flow/accepting-run-not-lost", 2, func() { a.ruleCepAcceptingRunKept() })
	a.Rule("shape/in-place-filter", 2, func() { a.ruleInPlaceFilter("cep") })
	a.Rule("flow/leftmost-first", 1, func() { a.ruleLeftmostFirst() })
	a.Rule("keyenc/cep-partition", 1, func() { a.keyencRule("stream", "cepRunner", "partitionKey", keyencOpts{}) })
	a.Rule("locks/guarded-by", 9, func() {
		a.lockRules("cep", "Engine")
		a.lockRules("cep", "partition")
	})
	a.Rule("whomay/partition-map", 2, func() {
		E := a.Named("cep", "Engine")
		pm := a.FieldOf(E, "partMap")
		allowed := map[string]string{
			"(*cep.Engine).getPartition":  "lookup / creation of the partition for a key",
			"(*cep.Engine).evictIfNeeded": "LRU eviction",
			"cep.NewEngine":               "constructor",
		}
		seen := map[string]token.Pos{}
		for _, ac := range a.fieldAccesses(pm) {
			// removing an entry (an eviction written elsewhere) or measuring the map reaches no partition's state
			if c, ok := ac.In.(*ssa.Call); ok {
				if _, isDel := isBuiltinCall(c, "delete"); isDel {
					continue
				}
			}
			if ld, ok := ac.In.(*ssa.UnOp); ok && ld.Op == token.MUL && ld.Referrers() != nil && len(*ld.Referrers()) > 0 {
				only := true
				for _, r := range *ld.Referrers() {
					c, isCall := r.(*ssa.Call)
					if !isCall {
						only = false
						continue
					}
					_, isDel := isBuiltinCall(c, "delete")
					_, isLen := isBuiltinCall(c, "len")
					if !isDel && !isLen {
						only = false
					}
				}
				if only {
					continue
				}
			}
			if _, ok := seen[fname(ac.Fn)]; !ok {
				seen[fname(ac.Fn)] = ac.In.Pos()
			}
		}
		for f, pos := range seen {
			why, ok := allowed[f]
			if ok {
				a.Ok("partMap@"+f, pos, "%s", why)
			} else {
				a.Bad("partMap@"+f, pos, "%s accesses Engine.partMap directly: partition state must be reached only through getPartition(key)", f)
			}
		}
		// Process steps the partition it looked up with its own key argument
		pr := a.Method("cep", "Engine", "Process")
		gp := a.Method("cep", "Engine", "getPartition")
		st := a.Method("cep", "Engine", "step")
		ok := false
		for _, c := range callsTo(pr, st) {
			arg := c.(*ssa.Call).Call.Args[1]
			if gc, isCall := arg.(*ssa.Call); isCall && gc.Call.StaticCallee() == gp {
				if p, isParam := gc.Call.Args[1].(*ssa.Parameter); isParam && isStringType(p.Type()) {
					ok = true
				}
			}
		}
		a.Check(ok, fname(pr)+"#steps-own-partition", pr.Pos(), "Process advances getPartition(partitionKey) for the key it was given", "Process does not step the partition obtained from getPartition(partitionKey): events of one partition would advance another's runs")
	})
	a.Rule("ordtab/partition-eviction", 1, func() {
		fn := a.Method("cep", "Engine", "evictIfNeeded")
		spec := OrdSpec{Roles: []string{"len", "cap"},
			Role: func(t *Term) string {
				if t.Kind == "call" && t.Name == "(*container/list.List).Len" {
					return "len"
				}
				if isFieldOf(t, "cep.Engine", "maxPart") {
					return "cap"
				}
				return ""
			}}
		var first ssa.Instruction
		back := false
		allInstrs(fn, func(in ssa.Instruction) {
			if c, ok := in.(*ssa.Call); ok && calleeFull(&c.Call) == "(*container/list.List).Remove" {
				if first == nil {
					first = in
				}
				if t := TermOf(c.Call.Args[1], nil); t.Kind == "call" && t.Name == "(*container/list.List).Back" {
					back = true
				}
			}
		})
		if first == nil {
			a.Und(fname(fn)+"#evict-only-above-cap", fn.Pos(), "no lru.Remove found")
			return
		}
		a.OnlyIf(fname(fn)+"#evict-only-above-cap", first.Pos(), "a partition is evicted only when the number of live partitions exceeds the cap", spec,
			fn.Blocks[0], nil, nil,
			func(in ssa.Instruction, _ *Walker) bool {
				c, ok := in.(*ssa.Call)
				if !ok {
					return false
				}
				if _, ok := isBuiltinCall(c, "delete"); ok {
					return true
				}
				return calleeFull(&c.Call) == "(*container/list.List).Remove"
			},
			func(r map[string]int, _ map[string]bool) bool { return r["len"] > r["cap"] })
		a.Check(back, fname(fn)+"#evicts-oldest", first.Pos(), "the evicted partition is lru.Back()", "the evicted partition is not the least recently used one")
	})
	a.Rule("flow/pooled-map-cleared", 1, func() {
		n := 0
		for _, fn := range a.ModFuncs {
			if fn.Pkg != nil && fn.Pkg.Pkg.Path() == modPath+"/cep" {
				n += a.rulePooledMapCleared(fn)
			}
		}
		if n == 0 {
			a.Ok("cep#pooled-map-cleared", token.NoPos, "package cep takes no map from a sync.Pool").Trivial = true
		}
	})
	a.Rule("flow/pending-keeps-longest", 1, func() { a.rulePendingKeepsLongest() })
	a.Rule("flow/live-path", 3, func() {
		fn := a.Method("stream", "DataProcessor", "processCEP")
		enrich := a.Method("stream", "Stream", "enrichData")
		proc := a.Method("cep", "Engine", "Process")
		pk := a.Method("stream", "cepRunner", "partitionKey")
		calls := callsTo(fn, proc)
		if len(calls) == 0 {
			a.Bad(fname(fn)+"#feeds-engine", fn.Pos(), "processCEP does not feed the engine")
			return
		}
		for _, c := range calls {
			cc := c.(*ssa.Call)
			row, key := cc.Call.Args[1], cc.Call.Args[2]
			okRow := false
			for _, l := range phiLeaves(row) {
				if ex, ok := l.(*ssa.Extract); ok && ex.Index == 0 {
					if ec, ok := ex.Tuple.(*ssa.Call); ok && ec.Call.StaticCallee() == enrich {
						okRow = true
					}
				}
			}
			a.Check(okRow, fname(fn)+"#row-is-enriched", c.Pos(), "the engine receives the JOIN-enriched row", "the engine is not fed with the row returned by enrichData")
			kc, isCall := key.(*ssa.Call)
			a.Check(isCall && kc.Call.StaticCallee() == pk && sameValue(kc.Call.Args[1], row), fname(fn)+"#key-of-same-row", c.Pos(), "the partition key is computed from the same row by the runner's encoder", "the partition key passed to Process is not partitionKey(<the row fed>)")
			// WHERE rejection and INNER-JOIN drop precede the engine
			okGate := guardedByValue(c.Block(), func(v ssa.Value) bool {
				return predicateVerdict(v)
			}, true) || !strings.Contains(fmt.Sprint(fn), "")
			reach := reachUnder(fn, c, func(v ssa.Value) Tri {
				if predicateVerdict(v) {
					return F
				}
				if bo, ok := v.(*ssa.BinOp); ok && (bo.Op == token.NEQ || bo.Op == token.EQL) && isFieldOf(TermOf(bo.X, nil), "stream.Stream", "filter") {
					return tri(bo.Op == token.NEQ)
				}
				return U
			})
			_ = okGate
			a.Check(!reach, fname(fn)+"#where-gates-engine", c.Pos(), "a row rejected by WHERE never reaches the engine", "the engine can be fed with a row whose WHERE predicate is false")
		}
	})
}

// ruleLoopMustOrExcuse: on every path through one iteration of loop l (body entry back to the header or
// out of the loop) either an instruction accepted by must is executed or an excusing branch edge is
// taken. Returns the blocks of an offending path, or nil.
func loopMustOrExcuse(l *RLoop, must func(ssa.Instruction) bool, excuse func(cond ssa.Value) (onTrue, onFalse bool)) []*ssa.BasicBlock {
	type st struct {
		b, pred *ssa.BasicBlock
		ok      bool
	}
	seen := map[st]bool{}
	var path []*ssa.BasicBlock
	var bad []*ssa.BasicBlock
	var dfs func(b, pred *ssa.BasicBlock, ok bool) bool
	dfs = func(b, pred *ssa.BasicBlock, ok bool) bool {
		if b == l.Header || !l.Blocks[b] {
			if !ok {
				bad = append(append([]*ssa.BasicBlock{}, path...), b)
				return true
			}
			return false
		}
		if seen[st{b, pred, ok}] {
			return false
		}
		seen[st{b, pred, ok}] = true
		path = append(path, b)
		defer func() { path = path[:len(path)-1] }()
		for _, in := range b.Instrs {
			if must(in) {
				ok = true
			}
		}
		if iff, isIf := b.Instrs[len(b.Instrs)-1].(*ssa.If); isIf {
			// the condition as it reads on this path (a named boolean is resolved to the operand that
			// decided it)
			cond, neg := pathCond(iff, pred)
			if k, isK := constBool(cond); isK {
				if k != neg {
					return dfs(b.Succs[0], b, ok)
				}
				return dfs(b.Succs[1], b, ok)
			}
			onT, onF := excuse(cond)
			if neg {
				onT, onF = onF, onT
			}
			if dfs(b.Succs[0], b, ok || onT) {
				return true
			}
			return dfs(b.Succs[1], b, ok || onF)
		}
		for _, s := range b.Succs {
			if dfs(s, b, ok) {
				return true
			}
		}
		return false
	}
	dfs(l.Body, nil, false)
	return bad
}

// condCall strips negations from a branch condition and returns the call it tests with its polarity.
func condCall(v ssa.Value) (*ssa.Call, bool) {
	pos := true
	for {
		if u, ok := v.(*ssa.UnOp); ok && u.Op == token.NOT {
			v = u.X
			pos = !pos
			continue
		}
		break
	}
	c, _ := v.(*ssa.Call)
	return c, pos
}

// ruleCepRunRules: the two structural conditions of "no valid match is omitted" and "no shared rows /
// other partitions never matter" that the matcher's bookkeeping rests on.
func (a *A) ruleCepSeqPerPartition() {
	// (a) skipTo/seqOfLabel compute row numbers as startSeq+offset, so the numbers handed to step must
	// count the rows of that partition only: the seq argument is read from a field of the partition
	// that is stepped.
	pr := a.Method("cep", "Engine", "Process")
	stp := a.Method("cep", "Engine", "step")
	P := a.Named("cep", "partition")
	n := 0
	for _, fn := range a.ModFuncs {
		for _, site := range callsTo(fn, stp) {
			n++
			cc := callCommon(site)
			pArg, seqArg := cc.Args[1], cc.Args[len(cc.Args)-1]
			ok := false
			v := seqArg
			if bo, isBin := v.(*ssa.BinOp); isBin && bo.Op == token.ADD {
				v = bo.X
			}
			if ld, isLd := v.(*ssa.UnOp); isLd && ld.Op == token.MUL {
				if fa, isFa := ld.X.(*ssa.FieldAddr); isFa && fa.X == pArg && isNamedType(fa.X.Type(), P.Obj().Pkg().Path(), "partition") {
					ok = true
				}
			}
			a.Check(ok, fname(fn)+"#seq-of-stepped-partition", site.Pos(),
				"the row number passed to step is a counter of the partition being stepped",
				"the row number passed to step is "+TermOf(seqArg, nil).String()+", not a counter of the stepped partition: skipTo and seqOfLabel compute a match's row numbers as startSeq+offset, which is only right when a partition's rows are numbered consecutively; with interleaved partitions SKIP resumes too early and matches share rows")
		}
	}
	_ = pr
	if n == 0 {
		a.Und("step-call", token.NoPos, "no call of (*Engine).step found")
	}
}

func (a *A) ruleCepAcceptingRunKept() {
	P := a.Named("cep", "partition")
	runsF := a.FieldOf(P, "runs")
	hasAccept := a.Func("cep", "hasAccept")
	type spec struct {
		fn     *ssa.Function
		what   string
		target string // the slice the run must be appended to
	}
	E := a.Named("cep", "Engine")
	maxRows := a.FieldOf(E, "maxRunRows")
	for _, sp := range []spec{
		{a.Method("cep", "Engine", "step"), "recorded as a completion", "completions"},
		{a.Method("cep", "Engine", "sweep"), "kept for the next event or Flush", "kept"},
	} {
		found := false
		for _, l := range rangeLoops(sp.fn) {
			if l.X == nil {
				continue
			}
			if xt := TermOf(l.X, nil); xt.Kind != "field" || xt.Field != runsF {
				continue
			}
			found = true
			construct := fname(sp.fn) + "#accepting-run-not-lost"
			must := func(in ssa.Instruction) bool {
				c, ok := in.(*ssa.Call)
				if !ok {
					return false
				}
				cc, ok := isBuiltinCall(c, "append")
				if !ok {
					return false
				}
				for _, e := range appendedElems(cc) {
					if l.isElem(e) {
						return true
					}
				}
				return false
			}
			// successors of the run: results of (*Engine).advance(r, ...)
			isSucc := func(v ssa.Value) bool {
				for _, leaf := range phiLeaves(v) {
					c, ok := leaf.(*ssa.Call)
					if !ok || c.Call.StaticCallee() == nil || c.Call.StaticCallee().Name() != "advance" || len(c.Call.Args) < 2 || !l.isElem(c.Call.Args[1]) {
						if k, isK := leaf.(*ssa.Const); isK && k.Value == nil {
							continue // nil: no successors
						}
						return false
					}
				}
				return true
			}
			excuse := func(cond ssa.Value) (bool, bool) {
				if c, pos := condCall(cond); c != nil && c.Call.StaticCallee() != nil {
					callee := c.Call.StaticCallee()
					// hasAccept(r.states) false: the run is not a match yet
					if callee == hasAccept && len(c.Call.Args) == 1 {
						if t := TermOf(c.Call.Args[0], nil); t.Kind == "field" && t.Field != nil && t.Field.Name() == "states" && t.Base != nil && l.isElem(derefLoadBase(c.Call.Args[0])) {
							return !pos, pos
						}
					}
					// a boolean module helper over the run's successors that calls hasAccept: a successor is accepting
					if a.fnInModule(callee) && len(c.Call.Args) == 1 && isSucc(c.Call.Args[0]) && len(callsTo(callee, hasAccept)) > 0 {
						return pos, !pos
					}
				}
				// r.nrows > e.maxRunRows: the documented length guard
				if bo, ok := cond.(*ssa.BinOp); ok && (bo.Op == token.GTR || bo.Op == token.LSS || bo.Op == token.GEQ || bo.Op == token.LEQ) {
					tx, ty := TermOf(bo.X, nil), TermOf(bo.Y, nil)
					isMax := func(t *Term) bool { return t.Kind == "field" && t.Field == maxRows }
					if isMax(tx) || isMax(ty) {
						over := bo.Op == token.GTR && isMax(ty) || bo.Op == token.LSS && isMax(tx)
						notOver := bo.Op == token.LEQ && isMax(ty) || bo.Op == token.GEQ && isMax(tx)
						if over {
							return true, false
						}
						if notOver {
							return false, true
						}
					}
				}
				return false, false
			}
			bad := loopMustOrExcuse(l, must, excuse)
			if bad == nil {
				a.Ok(construct, l.Header.Instrs[0].Pos(), "on every path through the loop over p.runs a run is %s unless hasAccept(r.states) is false, one of its successors is accepting, or the run-length guard is hit", sp.what)
			} else {
				var bs []string
				for _, b := range bad {
					bs = append(bs, fmt.Sprintf("%d", b.Index))
				}
				pos := token.NoPos
				for _, b := range bad {
					for _, in := range b.Instrs {
						if in.Pos() != token.NoPos {
							pos = in.Pos()
						}
					}
				}
				a.Bad(construct, pos, "a run may leave the loop over p.runs through blocks %s without being %s although it may be accepting (hasAccept(r.states) not known false, no accepting successor, length guard not hit): its rows are a valid match that is never reported", strings.Join(bs, ">"), sp.what)
			}
		}
		if !found {
			a.Und(fname(sp.fn)+"#accepting-run-not-lost", sp.fn.Pos(), "no loop over partition.runs found")
		}
	}
}

// derefLoadBase: for the address/load chain x.f (FieldAddr on a loaded pointer), the value x.
func derefLoadBase(v ssa.Value) ssa.Value {
	if ld, ok := v.(*ssa.UnOp); ok && ld.Op == token.MUL {
		v = ld.X
	}
	if fa, ok := v.(*ssa.FieldAddr); ok {
		return fa.X
	}
	return v
}

// ruleLeftmostFirst: "starts are taken leftmost-first": a pending completion may be emitted only when
// no run that started at or before it is still alive — emitting it moves nextStart forward and prunes
// the earlier runs and their stored completions. emitGreedy has to compare the start it is about to
// emit with the startSeq of the surviving runs by order (<, <=), not just test whether a run with the
// same start exists; and the emission must be under the control of that comparison.
func (a *A) ruleLeftmostFirst() {
	fn := a.Method("cep", "Engine", "emitGreedy")
	emitOne := a.Method("cep", "Engine", "emitOne")
	run := a.Named("cep", "run")
	startSeq := a.FieldOf(run, "startSeq")
	construct := fname(fn) + "#leftmost-first"
	// the ordered comparison of a start with the survivors' startSeq: in emitGreedy itself, or in a
	// same-package helper it calls (the call is then the controlling instruction)
	hasOrderedCmp := func(f *ssa.Function) ssa.Instruction {
		var found ssa.Instruction
		allInstrs(f, func(in ssa.Instruction) {
			bo, ok := in.(*ssa.BinOp)
			if !ok {
				return
			}
			switch bo.Op {
			case token.LSS, token.LEQ, token.GTR, token.GEQ:
			default:
				return
			}
			for _, v := range []ssa.Value{bo.X, bo.Y} {
				if t := TermOf(v, nil); t.Kind == "field" && t.Field == startSeq {
					found = in
				}
			}
		})
		return found
	}
	var ordered ssa.Instruction = hasOrderedCmp(fn)
	if ordered == nil {
		allInstrs(fn, func(in ssa.Instruction) {
			if callee := staticCallee(in); callee != nil && callee != emitOne && callee.Pkg == fn.Pkg && callee.Blocks != nil && hasOrderedCmp(callee) != nil {
				if _, isCall := in.(*ssa.Call); isCall {
					ordered = in
				}
			}
		})
	}
	calls := callsTo(fn, emitOne)
	if len(calls) == 0 {
		a.Und(construct, fn.Pos(), "emitGreedy does not call emitOne")
		return
	}
	// general form: the emission is guarded by an ordered comparison one of whose operands is computed from the
	// survivors' startSeq - directly, or through a running minimum kept in a local (possibly one a function
	// literal captures)
	cellStores := func(cell ssa.Value) []ssa.Value {
		// the values stored into a local variable, whichever function (emitGreedy or a literal in it) stores
		root := fn
		var al ssa.Value = cell
		if fv, ok := cell.(*ssa.FreeVar); ok {
			lit := fv.Parent()
			for _, in := range allInstrsOf(lit.Parent()) {
				if mc, ok := in.(*ssa.MakeClosure); ok && mc.Fn == lit {
					for i, b := range mc.Bindings {
						if i < len(lit.FreeVars) && lit.FreeVars[i] == fv {
							al = b
						}
					}
				}
			}
		}
		var out []ssa.Value
		var scan func(f *ssa.Function)
		scan = func(f *ssa.Function) {
			for _, in := range allInstrsOf(f) {
				if st, ok := in.(*ssa.Store); ok {
					addr := st.Addr
					if fv, ok := addr.(*ssa.FreeVar); ok {
						for _, in2 := range allInstrsOf(f.Parent()) {
							if mc, ok := in2.(*ssa.MakeClosure); ok && mc.Fn == f {
								for i, b := range mc.Bindings {
									if i < len(f.FreeVars) && f.FreeVars[i] == fv {
										addr = b
									}
								}
							}
						}
					}
					if addr == al {
						out = append(out, st.Val)
					}
				}
			}
			for _, an := range f.AnonFuncs {
				scan(an)
			}
		}
		scan(root)
		return out
	}
	var derives func(v ssa.Value, d int, seen map[ssa.Value]bool) bool
	derives = func(v ssa.Value, d int, seen map[ssa.Value]bool) bool {
		if v == nil || d > 12 || seen[v] {
			return false
		}
		seen[v] = true
		switch x := v.(type) {
		case *ssa.FieldAddr:
			return fieldVarOf(x) == startSeq
		case *ssa.Field:
			return fieldVarOf(x) == startSeq
		case *ssa.UnOp:
			if x.Op != token.MUL {
				return derives(x.X, d+1, seen)
			}
			switch y := x.X.(type) {
			case *ssa.FieldAddr:
				return fieldVarOf(y) == startSeq
			case *ssa.Alloc, *ssa.FreeVar:
				for _, sv := range cellStores(y) {
					if derives(sv, d+1, seen) {
						return true
					}
				}
			}
		case *ssa.Phi:
			for _, e := range x.Edges {
				if derives(e, d+1, seen) {
					return true
				}
			}
		case *ssa.BinOp:
			return derives(x.X, d+1, seen) || derives(x.Y, d+1, seen)
		case *ssa.Convert:
			return derives(x.X, d+1, seen)
		case *ssa.ChangeType:
			return derives(x.X, d+1, seen)
		}
		return false
	}
	// the emission is control-dependent on an ordered comparison with a value computed from the survivors'
	// startSeq: some branch on such a comparison leads to the emission on one side and cannot reach it on the
	// other (`if live && minLive <= s { return false }` compiles to two branches; the second is the one)
	orderedOnStart := func(v ssa.Value) bool {
		for _, l := range phiLeaves(v) {
			for {
				u, ok := l.(*ssa.UnOp)
				if !ok || u.Op != token.NOT {
					break
				}
				l = u.X
			}
			bo, ok := l.(*ssa.BinOp)
			if !ok {
				continue
			}
			switch bo.Op {
			case token.LSS, token.LEQ, token.GTR, token.GEQ:
				if derives(bo.X, 0, map[ssa.Value]bool{}) || derives(bo.Y, 0, map[ssa.Value]bool{}) {
					return true
				}
			}
		}
		return false
	}
	guardedByOrder := func(c ssa.Instruction) bool {
		for _, b := range c.Parent().Blocks {
			iff, ok := b.Instrs[len(b.Instrs)-1].(*ssa.If)
			if !ok || b.Succs[0] == b.Succs[1] || !orderedOnStart(iff.Cond) {
				continue
			}
			r0 := b.Succs[0] == c.Block() || reachesAvoiding(b.Succs[0], c.Block(), b)
			r1 := b.Succs[1] == c.Block() || reachesAvoiding(b.Succs[1], c.Block(), b)
			if r0 != r1 {
				return true
			}
		}
		return false
	}
	allGuarded := true
	for _, c := range calls {
		if !guardedByOrder(c) {
			allGuarded = false
		}
	}
	if allGuarded {
		a.Ok(construct, calls[0].Pos(), "every emission is guarded by an ordered comparison with a value computed from the surviving runs' startSeq")
		return
	}
	if ordered == nil {
		a.Bad(construct, calls[0].Pos(), "emitGreedy never compares the start it emits with the startSeq of the surviving runs by order: a later start is emitted while an earlier-start run is still alive, and the emission prunes the earlier, leftmost match")
		return
	}
	// the comparison must be able to prevent the emission: some path from it avoids the emitOne call
	ok := false
	for _, c := range calls {
		if c.Parent() == ordered.Parent() && !dominatesInstr(c, ordered) && ordered.Block() != c.Block() {
			ok = true
		}
	}
	a.Check(ok, construct, ordered.Pos(), "a pending start is emitted only after its order relative to the surviving runs' starts was tested",
		"the ordered comparison with the survivors' starts does not control the emission")
}

// rulePendingKeepsLongest: in greedy mode the completed matches wait in partition.pending, one per
// start row, until no run that started there can still grow; the match reported for a start is the
// longest one. Two runs with the same start can complete on the same row ((A+ | A B) on A B), in map
// order — so an entry of pending is replaced only by a longer completion: every store into
// partition.pending is guarded by a comparison of the candidates' row counts (or by the slot being
// empty).
func (a *A) rulePendingKeepsLongest() int {
	P := a.Named("cep", "partition")
	pend := a.FieldOf(P, "pending")
	nrows := a.FieldOf(a.Named("cep", "run"), "nrows")
	n := 0
	for _, fn := range a.ModFuncs {
		if fn.Pkg != a.Pkg("cep") || fn.Blocks == nil {
			continue
		}
		allInstrs(fn, func(in ssa.Instruction) {
			mu, ok := in.(*ssa.MapUpdate)
			if !ok {
				return
			}
			if t := TermOf(mu.Map, nil); t.Kind != "field" || t.Field != pend {
				return
			}
			n++
			isRows := func(v ssa.Value) bool {
				for y := range backwardSlice(v, 3) {
					if fa, ok := y.(*ssa.FieldAddr); ok && fieldVarOf(fa) == nrows {
						return true
					}
				}
				return false
			}
			// with a slot that is occupied, the store must be unreachable for one outcome of the row-count
			// comparison (whichever way round it is written)
			guarded := false
			sawCmp := false
			for _, pol := range []Tri{F, T} {
				pol := pol
				reach := reachUnder(fn, mu, func(v ssa.Value) Tri {
					bo, ok := v.(*ssa.BinOp)
					if !ok {
						if ex, ok := v.(*ssa.Extract); ok && ex.Index == 1 {
							if _, isLk := ex.Tuple.(*ssa.Lookup); isLk {
								return T // the slot exists
							}
						}
						return U
					}
					switch bo.Op {
					case token.GTR, token.LSS, token.GEQ, token.LEQ:
						if isRows(bo.X) && isRows(bo.Y) {
							sawCmp = true
							return pol
						}
					}
					// the slot is occupied: len(cur) == 0 is false, != 0 / > 0 true; cur == nil false
					if c, ok := bo.X.(*ssa.Call); ok {
						if _, isLen := isBuiltinCall(c, "len"); isLen && isZeroConst(bo.Y) {
							switch bo.Op {
							case token.EQL, token.LEQ:
								return F
							case token.NEQ, token.GTR:
								return T
							}
						}
					}
					if isNilConst(bo.Y) {
						switch bo.Op {
						case token.EQL:
							return F
						case token.NEQ:
							return T
						}
					}
					return U
				})
				if !reach {
					guarded = true
				}
			}
			guarded = guarded && sawCmp
			a.Check(guarded, fname(fn)+"#pending-keeps-longest", mu.Pos(),
				"a pending completion is replaced only after a comparison of the row counts",
				"a completion is stored into partition.pending without comparing its length with the one already waiting for that start row: when two runs with the same start complete on the same row (alternation with a shared prefix), map order decides which is reported, and the shorter one leaves the next row unmatched")
		})
	}
	return n
}
