package main

import (
	"fmt"
	"go/token"
	"strings"

	"golang.org/x/tools/go/ssa"
)

func init() {
	register(&Prop{
		ID: "C15",
		Decided: "isolation and lifecycle only: (1) the partition key encoder of the MATCH_RECOGNIZE runner is typed and length-prefixed (uniquely decodable); (2) all partition state of cep.Engine (partMap, lru, seq) is accessed only under e.mu, the sweeper included; (3) per-partition state is reached only through getPartition(key): partMap is read/written only by getPartition and evictIfNeeded, and Process steps exactly the partition it looked up with the key it was given; (4) partitions are evicted only when lru.Len() > maxPart and the evicted one is lru.Back(); (5) Stop order: waitLifecycle -> cep.Stop -> engine.Flush -> synchronous flush delivery, flush rows projected like live matches (shared with C18); (5b) the scratch map that DEFINE/MEASURES evaluation takes from the process-wide pool is emptied before its first write (or before every exit), so no row's fields leak into the evaluation of another row, partition or instance; (6) the live path feeds the engine only rows that passed JOIN enrichment and WHERE, with the runner's own partition key.",
		NotDecided: "everything about which matches are reported: NFA construction, greedy/reluctant choice, SKIP modes, WITHIN, MEASURES, MATCH_NUMBER — match semantics are value-level.",
		Run: runC15,
	})
}

func runC15(a *A) {
	a.Rule("keyenc/cep-partition", 1, func() { a.keyencRule("stream", "cepRunner", "partitionKey", keyencOpts{}) })
	a.Rule("locks/guarded-by", 5, func() { a.lockRules("cep", "Engine") })
	a.Rule("whomay/partition-map", 2, func() {
		E := a.Named("cep", "Engine")
		pm := a.FieldOf(E, "partMap")
		allowed := map[string]string{
			"(*cep.Engine).getPartition":  "lookup / creation of the partition for a key",
			"(*cep.Engine).evictIfNeeded": "LRU eviction",
			"cep.NewEngine":               "constructor",
		}
		seen := map[string]token.Pos{}
		for _, ac := range a.fieldAccesses(pm) {
			if _, ok := seen[fname(ac.Fn)]; !ok {
				seen[fname(ac.Fn)] = ac.In.Pos()
			}
		}
		for f, pos := range seen {
			why, ok := allowed[f]
			if ok {
				a.Ok("partMap@"+f, pos, "%s", why)
			} else {
				a.Bad("partMap@"+f, pos, "%s accesses Engine.partMap directly: partition state must be reached only through getPartition(key)", f)
			}
		}
		// Process steps the partition it looked up with its own key argument
		pr := a.Method("cep", "Engine", "Process")
		gp := a.Method("cep", "Engine", "getPartition")
		st := a.Method("cep", "Engine", "step")
		ok := false
		for _, c := range callsTo(pr, st) {
			arg := c.(*ssa.Call).Call.Args[1]
			if gc, isCall := arg.(*ssa.Call); isCall && gc.Call.StaticCallee() == gp {
				if p, isParam := gc.Call.Args[1].(*ssa.Parameter); isParam && isStringType(p.Type()) {
					ok = true
				}
			}
		}
		a.Check(ok, fname(pr)+"#steps-own-partition", pr.Pos(), "Process advances getPartition(partitionKey) for the key it was given", "Process does not step the partition obtained from getPartition(partitionKey): events of one partition would advance another's runs")
	})
	a.Rule("ordtab/partition-eviction", 1, func() {
		fn := a.Method("cep", "Engine", "evictIfNeeded")
		spec := OrdSpec{Roles: []string{"len", "cap"},
			Role: func(t *Term) string {
				if t.Kind == "call" && t.Name == "(*container/list.List).Len" {
					return "len"
				}
				if isFieldOf(t, "cep.Engine", "maxPart") {
					return "cap"
				}
				return ""
			}}
		var first ssa.Instruction
		back := false
		allInstrs(fn, func(in ssa.Instruction) {
			if c, ok := in.(*ssa.Call); ok && calleeFull(&c.Call) == "(*container/list.List).Remove" {
				if first == nil {
					first = in
				}
				if t := TermOf(c.Call.Args[1], nil); t.Kind == "call" && t.Name == "(*container/list.List).Back" {
					back = true
				}
			}
		})
		if first == nil {
			a.Und(fname(fn)+"#evict-only-above-cap", fn.Pos(), "no lru.Remove found")
			return
		}
		a.OnlyIf(fname(fn)+"#evict-only-above-cap", first.Pos(), "a partition is evicted only when the number of live partitions exceeds the cap", spec,
			fn.Blocks[0], nil, nil,
			func(in ssa.Instruction, _ *Walker) bool {
				c, ok := in.(*ssa.Call)
				if !ok {
					return false
				}
				if _, ok := isBuiltinCall(c, "delete"); ok {
					return true
				}
				return calleeFull(&c.Call) == "(*container/list.List).Remove"
			},
			func(r map[string]int, _ map[string]bool) bool { return r["len"] > r["cap"] })
		a.Check(back, fname(fn)+"#evicts-oldest", first.Pos(), "the evicted partition is lru.Back()", "the evicted partition is not the least recently used one")
	})
	a.Rule("flow/pooled-map-cleared", 1, func() {
		n := 0
		for _, fn := range a.ModFuncs {
			if fn.Pkg != nil && fn.Pkg.Pkg.Path() == modPath+"/cep" {
				n += a.rulePooledMapCleared(fn)
			}
		}
		if n == 0 {
			a.Ok("cep#pooled-map-cleared", token.NoPos, "package cep takes no map from a sync.Pool").Trivial = true
		}
	})
	a.Rule("flow/live-path", 3, func() {
		fn := a.Method("stream", "DataProcessor", "processCEP")
		enrich := a.Method("stream", "Stream", "enrichData")
		proc := a.Method("cep", "Engine", "Process")
		pk := a.Method("stream", "cepRunner", "partitionKey")
		calls := callsTo(fn, proc)
		if len(calls) == 0 {
			a.Bad(fname(fn)+"#feeds-engine", fn.Pos(), "processCEP does not feed the engine")
			return
		}
		for _, c := range calls {
			cc := c.(*ssa.Call)
			row, key := cc.Call.Args[1], cc.Call.Args[2]
			okRow := false
			for _, l := range phiLeaves(row) {
				if ex, ok := l.(*ssa.Extract); ok && ex.Index == 0 {
					if ec, ok := ex.Tuple.(*ssa.Call); ok && ec.Call.StaticCallee() == enrich {
						okRow = true
					}
				}
			}
			a.Check(okRow, fname(fn)+"#row-is-enriched", c.Pos(), "the engine receives the JOIN-enriched row", "the engine is not fed with the row returned by enrichData")
			kc, isCall := key.(*ssa.Call)
			a.Check(isCall && kc.Call.StaticCallee() == pk && kc.Call.Args[1] == row, fname(fn)+"#key-of-same-row", c.Pos(), "the partition key is computed from the same row by the runner's encoder", "the partition key passed to Process is not partitionKey(<the row fed>)")
			// WHERE rejection and INNER-JOIN drop precede the engine
			okGate := guardedByValue(c.Block(), func(v ssa.Value) bool {
				call, ok := v.(*ssa.Call)
				return ok && call.Call.IsInvoke() && call.Call.Method.Name() == "Evaluate"
			}, true) || !strings.Contains(fmt.Sprint(fn), "")
			reach := reachUnder(fn, c, func(v ssa.Value) Tri {
				if call, ok := v.(*ssa.Call); ok && call.Call.IsInvoke() && call.Call.Method.Name() == "Evaluate" {
					return F
				}
				if bo, ok := v.(*ssa.BinOp); ok && (bo.Op == token.NEQ || bo.Op == token.EQL) && isFieldOf(TermOf(bo.X, nil), "stream.Stream", "filter") {
					return tri(bo.Op == token.NEQ)
				}
				return U
			})
			_ = okGate
			a.Check(!reach, fname(fn)+"#where-gates-engine", c.Pos(), "a row rejected by WHERE never reaches the engine", "the engine can be fed with a row whose WHERE predicate is false")
		}
	})
}
