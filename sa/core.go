package main

// core.go — loading, anchor resolution, obligations, evidence, exit protocol.
//
// Everything in this analyzer is decided from the type-checked source of the
// repository under analysis (VERIF_REPO, default /repo): nothing of streamsql
// is executed.

import (
	"bytes"
	"crypto/sha256"
	"encoding/json"
	"fmt"
	"go/token"
	"go/types"
	"os"
	"path/filepath"
	"runtime"
	"sort"
	"strings"
	"time"

	"golang.org/x/tools/go/callgraph"
	"golang.org/x/tools/go/callgraph/cha"
	"golang.org/x/tools/go/callgraph/vta"
	"golang.org/x/tools/go/packages"
	"golang.org/x/tools/go/ssa"
	"golang.org/x/tools/go/ssa/ssautil"
)

const modPath = "github.com/rulego/streamsql"

type Verdict string

const (
	Discharged       Verdict = "discharged"
	Violated         Verdict = "violated"
	Undecided        Verdict = "undecided"
	AnchorUnresolved Verdict = "anchor-unresolved"
)

// Ob is one obligation: one construct a rule quantifies over.
type Ob struct {
	Rule      string  `json:"rule"`
	Construct string  `json:"construct"`
	Pos       string  `json:"pos,omitempty"`
	Verdict   Verdict `json:"verdict"`
	Detail    string  `json:"detail,omitempty"`
	Trivial   bool    `json:"trivial,omitempty"`
	Known     bool    `json:"known_finding,omitempty"`
	Extra     any     `json:"extra,omitempty"`
}

// Prop is one property with its rule instances.
type Prop struct {
	ID          string
	Decided     string // clauses decided (goes to coverage.explanation)
	NotDecided  string
	Technique   string
	Assumptions []string
	Run         func(a *A)
}

var props = map[string]*Prop{}

func register(p *Prop) { props[p.ID] = p }

// A is the analysis context.
type A struct {
	Repo     string
	Tier     string
	Fset     *token.FileSet
	Pkgs     []*packages.Package
	Prog     *ssa.Program
	SPkgs    map[string]*ssa.Package // by path relative to module ("" = root)
	TPkgs    map[string]*packages.Package
	ModFuncs []*ssa.Function // every function of the module incl. closures, methods
	cg       *callgraph.Graph
	allFuncs map[*ssa.Function]bool

	locks    *Locks
	taint    *Taint
	sinks    *SinkInfo
	apiReach map[*ssa.Function]bool

	norm     *normResult
	turned   int // comparisons written constant-first that were turned round before the analysis
	lineMaps map[string][]int // normalised file -> original line per line (0: inside inlined code)

	obs      []*Ob
	curRule  string
	floors   map[string]int
	info     map[string]any
	prop     *Prop
	seenKeys map[string]int
}

type anchorErr struct{ what string }

func (a *A) anchorFail(format string, args ...any) {
	panic(anchorErr{fmt.Sprintf(format, args...)})
}

// Rule runs one rule instance; anchor failures become anchor-unresolved
// obligations, any other panic is a checker-integrity failure. Both fail the check.
func (a *A) Rule(name string, floor int, f func()) {
	a.curRule = name
	if floor > 0 {
		a.floors[name] = floor
	}
	defer func() {
		if r := recover(); r != nil {
			if ae, ok := r.(anchorErr); ok {
				a.add(&Ob{Rule: name, Construct: "anchor", Verdict: AnchorUnresolved, Detail: ae.what})
				return
			}
			buf := make([]byte, 4096)
			n := runtime.Stack(buf, false)
			a.add(&Ob{Rule: "checker-integrity", Construct: name + "#panic", Verdict: Undecided,
				Detail: fmt.Sprintf("analyzer panic: %v\n%s", r, buf[:n])})
		}
	}()
	f()
}

func (a *A) add(o *Ob) {
	if o.Rule == "" {
		o.Rule = a.curRule
	}
	k := o.Rule + " " + o.Construct
	a.seenKeys[k]++
	if n := a.seenKeys[k]; n > 1 {
		o.Construct = fmt.Sprintf("%s[%d]", o.Construct, n-1)
	}
	a.obs = append(a.obs, o)
}

// Ok / Bad / Und record obligations under the current rule.
func (a *A) Ok(construct string, pos token.Pos, detail string, args ...any) *Ob {
	o := &Ob{Construct: construct, Pos: a.pos(pos), Verdict: Discharged, Detail: fmt.Sprintf(detail, args...)}
	a.add(o)
	return o
}
func (a *A) Bad(construct string, pos token.Pos, detail string, args ...any) *Ob {
	o := &Ob{Construct: construct, Pos: a.pos(pos), Verdict: Violated, Detail: fmt.Sprintf(detail, args...)}
	a.add(o)
	return o
}
func (a *A) Und(construct string, pos token.Pos, detail string, args ...any) *Ob {
	o := &Ob{Construct: construct, Pos: a.pos(pos), Verdict: Undecided, Detail: fmt.Sprintf(detail, args...)}
	a.add(o)
	return o
}

// Check records discharged when cond holds, violated otherwise.
func (a *A) Check(cond bool, construct string, pos token.Pos, okDetail, badDetail string) *Ob {
	if cond {
		return a.Ok(construct, pos, "%s", okDetail)
	}
	return a.Bad(construct, pos, "%s", badDetail)
}

func (a *A) Info(k string, v any) { a.info[k] = v }

func (a *A) pos(p token.Pos) string {
	if !p.IsValid() {
		return ""
	}
	ps := a.Fset.Position(p)
	rel, err := filepath.Rel(a.Repo, ps.Filename)
	if err != nil {
		rel = ps.Filename
	}
	if lm, ok := a.lineMaps[ps.Filename]; ok && ps.Line < len(lm) {
		// the file was normalised (helpers inlined): report the line of the file on disk; inside inlined
		// code, the nearest preceding line that exists on disk, marked with '+'
		l := ps.Line
		for l > 0 && lm[l] == 0 {
			l--
		}
		if l == ps.Line {
			return fmt.Sprintf("%s:%d", rel, lm[l])
		}
		if l > 0 {
			return fmt.Sprintf("%s:%d+", rel, lm[l])
		}
		return rel
	}
	return fmt.Sprintf("%s:%d", rel, ps.Line)
}

func inventoryPath() string {
	if p := os.Getenv("VERIF_INVENTORY"); p != "" {
		return p
	}
	return filepath.Join(envOr("VERIF_DIR", "/verif"), "sa", "inventory.txt")
}

// ---------------------------------------------------------------- loading

func loadPkgs(repo string, overlay map[string][]byte, tags string) ([]*packages.Package, error) {
	os.Unsetenv("GOWORK")
	os.Setenv("GOWORK", "off")
	cfg := &packages.Config{
		Mode:    packages.LoadAllSyntax,
		Dir:     repo,
		Tests:   false,
		Overlay: overlay,
		Env: append(os.Environ(), "GOFLAGS=-mod=mod", "GOPROXY=off", "GOSUMDB=off",
			"GOTOOLCHAIN=local", "GOWORK=off"),
	}
	if tags != "" {
		cfg.BuildFlags = []string{"-tags=" + tags}
	}
	if ga := os.Getenv("VERIF_GOARCH"); ga != "" {
		cfg.Env = append(cfg.Env, "GOARCH="+ga)
	}
	pkgs, err := packages.Load(cfg, "./...")
	if err != nil {
		return nil, err
	}
	if len(pkgs) == 0 {
		return nil, fmt.Errorf("no packages loaded from %s", repo)
	}
	var errs []string
	packages.Visit(pkgs, nil, func(p *packages.Package) {
		for _, e := range p.Errors {
			errs = append(errs, e.Error())
		}
	})
	if len(errs) > 0 {
		return nil, fmt.Errorf("type/load errors: %s", strings.Join(errs, "; "))
	}
	return pkgs, nil
}

// knownFuncs: the inventory the rule tables were calibrated on (nil: no inventory, every function counts as known).
var knownFuncs map[string]bool

// isNewFunc: f is a declared function of the module that the inventory does not list - a helper introduced after the
// rules were written. The normalisation inlines its calls where it can; where it cannot (the helper defers, the call
// sits under && / ||), rules that ask "does F call G" still treat the helper's body as part of F (callsTo).
func isNewFunc(f *ssa.Function) bool {
	if knownFuncs == nil || f == nil || f.Pkg == nil || f.Parent() != nil || f.Synthetic != "" || f.Blocks == nil {
		return false
	}
	path := f.Pkg.Pkg.Path()
	if path != modPath && !strings.HasPrefix(path, modPath+"/") {
		return false
	}
	rel := strings.TrimPrefix(strings.TrimPrefix(path, modPath), "/")
	if rel == "" {
		rel = "."
	}
	recv := ""
	if r := f.Signature.Recv(); r != nil {
		if n, ok := derefT(r.Type()).(*types.Named); ok {
			recv = n.Obj().Name()
		}
	}
	return !knownFuncs[rel+":"+recv+"."+f.Name()]
}

// isNewFlag: v reads a boolean struct field that the inventory does not list - an option added after the rules were
// written. Its zero value is the behaviour the rules were calibrated on ("a new option with a default that keeps
// today's behaviour"); the evaluators of path conditions take it as false, so what only happens with the option
// switched on is new behaviour that no rule judges - neither accepted nor reported. The evidence names such
// fields (new_options_assumed_off).
func isNewFlag(v ssa.Value) bool {
	if knownFuncs == nil || !knownFuncs["field:inventory-has-fields"] {
		return false
	}
	var fv *types.Var
	var owner types.Type
	switch x := v.(type) {
	case *ssa.UnOp:
		fa, ok := x.X.(*ssa.FieldAddr)
		if !ok || x.Op != token.MUL {
			return false
		}
		fv, owner = fieldVarOf(fa), derefT(fa.X.Type())
	case *ssa.Field:
		fv, owner = fieldVarOf(x), x.X.Type()
	default:
		return false
	}
	if fv == nil || !isBool(fv.Type()) {
		return false
	}
	n, ok := owner.(*types.Named)
	if !ok || n.Obj().Pkg() == nil {
		return false
	}
	path := n.Obj().Pkg().Path()
	if path != modPath && !strings.HasPrefix(path, modPath+"/") {
		return false
	}
	rel := strings.TrimPrefix(strings.TrimPrefix(path, modPath), "/")
	if rel == "" {
		rel = "."
	}
	if knownFuncs["field:"+rel+":"+n.Obj().Name()+"."+fv.Name()] {
		return false
	}
	if !isOptionField(fv) {
		return false
	}
	newFlagsSeen[rel+"."+n.Obj().Name()+"."+fv.Name()] = true
	return true
}

var newFlagsSeen = map[string]bool{}

// isOptionField: the field is set only where options are set - in constructors, option functions and setters
// (New*/With*/Set*/apply*, their literals, composite literals) - never by the code that processes rows. A boolean
// that the engine itself switches while it runs is state, and its true side is as much today's behaviour as its
// false side.
var optionFieldCache = map[*types.Var]bool{}
var moduleFuncsForFlags []*ssa.Function

func isOptionField(fv *types.Var) bool {
	if r, ok := optionFieldCache[fv]; ok {
		return r
	}
	res := true
	for _, fn := range moduleFuncsForFlags {
		if fn.Blocks == nil {
			continue
		}
		root := fn
		for root.Parent() != nil {
			root = root.Parent()
		}
		name := root.Name()
		setter := false
		for _, p := range []string{"New", "new", "With", "with", "Set", "set", "apply", "Apply", "init", "Init", "configure", "Configure"} {
			if strings.HasPrefix(name, p) {
				setter = true
			}
		}
		if setter {
			continue
		}
		for _, b := range fn.Blocks {
			for _, in := range b.Instrs {
				st, ok := in.(*ssa.Store)
				if !ok {
					continue
				}
				fa, ok := st.Addr.(*ssa.FieldAddr)
				if !ok || fieldVarOf(fa) != fv {
					continue
				}
				// a store into an object that is being built (fresh literal) is initialisation
				if _, fresh := fa.X.(*ssa.Alloc); fresh {
					continue
				}
				res = false
			}
		}
	}
	optionFieldCache[fv] = res
	return res
}

// load type-checks the module and builds its SSA form. When the tree declares functions that are not
// in the inventory (normalize.go), their same-package calls are inlined first and the analysis runs
// on the normalised program; positions are mapped back to the files on disk.
func load(repo string, overlay map[string][]byte, tags string) (*A, error) {
	pkgs, err := loadPkgs(repo, overlay, tags)
	if err != nil {
		return nil, err
	}
	var norm *normResult
	knownFuncs = nil
	turned := 0
	if os.Getenv("VERIF_NO_NORMALIZE") == "" {
		// comparisons with the constant on the left are turned round first (normalize.go, constantLeft)
		if files, n := constantLeft(pkgs, overlay); n > 0 {
			ov2 := map[string][]byte{}
			for k, v := range overlay {
				ov2[k] = v
			}
			for k, v := range files {
				ov2[k] = v
			}
			if npkgs, nerr := loadPkgs(repo, ov2, tags); nerr == nil {
				pkgs, overlay, turned = npkgs, ov2, n
			}
		}
	}
	if inv, ierr := loadInventory(inventoryPath()); ierr == nil && os.Getenv("VERIF_NO_NORMALIZE") == "" {
		knownFuncs = inv
		fresh := false
		for k := range declaredFuncs(repo, overlay) {
			if !inv[k] {
				fresh = true
				break
			}
		}
		if !fresh && inv["closure:inventory-has-closures"] {
			for k := range declaredClosures(repo, overlay) {
				if !inv[k] {
					fresh = true
					break
				}
			}
		}
		if fresh {
			norm = normalize(repo, pkgs, overlay, inv)
			if len(norm.Inlined)+len(norm.Removed) > 0 {
				npkgs, nerr := loadPkgs(repo, norm.Overlay, tags)
				if nerr == nil {
					pkgs = npkgs
				} else {
					norm.Skipped = append(norm.Skipped, "the normalised module does not load ("+nerr.Error()+"): analysing the tree as it is")
					norm.Overlay = nil
				}
			} else {
				norm.Overlay = nil
			}
		}
	}
	a := &A{Repo: repo, Pkgs: pkgs, SPkgs: map[string]*ssa.Package{}, TPkgs: map[string]*packages.Package{},
		floors: map[string]int{}, info: map[string]any{}, seenKeys: map[string]int{}}
	a.Fset = pkgs[0].Fset
	a.norm = norm
	a.turned = turned
	if norm != nil && norm.Overlay != nil {
		a.lineMaps = map[string][]int{}
		for f, nb := range norm.Overlay {
			ob, ok := overlay[f]
			if !ok {
				ob, _ = os.ReadFile(f)
			}
			if !bytes.Equal(ob, nb) {
				a.lineMaps[f] = lineMap(ob, nb)
			}
		}
	}
	prog, spkgs := ssautil.AllPackages(pkgs, ssa.InstantiateGenerics)
	prog.Build()
	a.Prog = prog
	foundRoot := false
	for i, p := range pkgs {
		if p.PkgPath == modPath || strings.HasPrefix(p.PkgPath, modPath+"/") {
			rel := strings.TrimPrefix(strings.TrimPrefix(p.PkgPath, modPath), "/")
			a.SPkgs[rel] = spkgs[i]
			a.TPkgs[rel] = p
			if rel == "" {
				foundRoot = true
			}
		}
	}
	if !foundRoot {
		return nil, fmt.Errorf("module root package %s not found", modPath)
	}
	a.allFuncs = ssautil.AllFunctions(prog)
	for fn := range a.allFuncs {
		if fn.Pkg != nil && a.inModule(fn.Pkg.Pkg) && fn.Synthetic == "" {
			a.ModFuncs = append(a.ModFuncs, fn)
		} else if fn.Pkg == nil && fn.Parent() != nil {
			// closures of instantiated generics etc.
			p := fn
			for p.Parent() != nil {
				p = p.Parent()
			}
			if p.Pkg != nil && a.inModule(p.Pkg.Pkg) {
				a.ModFuncs = append(a.ModFuncs, fn)
			}
		}
	}
	sort.Slice(a.ModFuncs, func(i, j int) bool {
		if a.ModFuncs[i].Pos() != a.ModFuncs[j].Pos() {
			return a.ModFuncs[i].Pos() < a.ModFuncs[j].Pos()
		}
		return a.ModFuncs[i].String() < a.ModFuncs[j].String()
	})
	moduleFuncsForFlags = a.ModFuncs
	optionFieldCache = map[*types.Var]bool{}
	return a, nil
}

func (a *A) inModule(p *types.Package) bool {
	if p == nil {
		return false
	}
	return p.Path() == modPath || strings.HasPrefix(p.Path(), modPath+"/")
}

func (a *A) fnInModule(fn *ssa.Function) bool {
	for fn.Parent() != nil {
		fn = fn.Parent()
	}
	if fn.Pkg != nil {
		return a.inModule(fn.Pkg.Pkg)
	}
	if fn.Object() != nil {
		return a.inModule(fn.Object().Pkg())
	}
	return false
}

// CG returns the VTA call graph (built lazily).
func (a *A) CG() *callgraph.Graph {
	if a.cg == nil {
		a.cg = vta.CallGraph(a.allFuncs, cha.CallGraph(a.Prog))
	}
	return a.cg
}

// ---------------------------------------------------------------- anchors

func (a *A) Pkg(rel string) *ssa.Package {
	p := a.SPkgs[rel]
	if p == nil {
		a.anchorFail("package %q not found", rel)
	}
	return p
}

func (a *A) Named(rel, name string) *types.Named {
	p := a.Pkg(rel)
	o := p.Pkg.Scope().Lookup(name)
	if o == nil {
		a.anchorFail("type %s.%s not found", rel, name)
	}
	tn, ok := o.(*types.TypeName)
	if !ok {
		a.anchorFail("%s.%s is not a type", rel, name)
	}
	n, ok := tn.Type().(*types.Named)
	if !ok {
		a.anchorFail("%s.%s is not a named type", rel, name)
	}
	return n
}

func (a *A) Iface(rel, name string) *types.Interface {
	n := a.Named(rel, name)
	i, ok := n.Underlying().(*types.Interface)
	if !ok {
		a.anchorFail("%s.%s is not an interface", rel, name)
	}
	return i
}

func (a *A) Func(rel, name string) *ssa.Function {
	p := a.Pkg(rel)
	f := p.Func(name)
	if f == nil {
		a.anchorFail("function %s.%s not found", rel, name)
	}
	return f
}

// FuncOpt is Func without failure.
func (a *A) FuncOpt(rel, name string) *ssa.Function {
	p := a.SPkgs[rel]
	if p == nil {
		return nil
	}
	return p.Func(name)
}

// Method resolves (T).name or (*T).name.
func (a *A) Method(rel, typ, name string) *ssa.Function {
	f := a.MethodOpt(rel, typ, name)
	if f == nil {
		a.anchorFail("method %s.%s.%s not found", rel, typ, name)
	}
	return f
}

func (a *A) MethodOpt(rel, typ, name string) *ssa.Function {
	p := a.SPkgs[rel]
	if p == nil {
		return nil
	}
	o := p.Pkg.Scope().Lookup(typ)
	if o == nil {
		return nil
	}
	n, ok := o.Type().(*types.Named)
	if !ok {
		return nil
	}
	return a.methodOf(n, name)
}

func (a *A) methodOf(n *types.Named, name string) *ssa.Function {
	for _, t := range []types.Type{types.NewPointer(n), n} {
		ms := a.Prog.MethodSets.MethodSet(t)
		for i := 0; i < ms.Len(); i++ {
			sel := ms.At(i)
			if sel.Obj().Name() == name {
				f := a.Prog.MethodValue(sel)
				if f != nil && f.Synthetic != "" {
					// wrapper for promoted/value method: resolve to declared function
					if fo, ok := sel.Obj().(*types.Func); ok {
						if d := a.Prog.FuncValue(fo); d != nil {
							return d
						}
					}
				}
				return f
			}
		}
	}
	return nil
}

func (a *A) FieldOf(n *types.Named, name string) *types.Var {
	st, ok := n.Underlying().(*types.Struct)
	if !ok {
		a.anchorFail("%s is not a struct", n)
	}
	for i := 0; i < st.NumFields(); i++ {
		if st.Field(i).Name() == name {
			return st.Field(i)
		}
	}
	a.anchorFail("field %s.%s not found", n.Obj().Name(), name)
	return nil
}

// Implementers returns the module's named non-interface types whose pointer or value
// method set implements iface, sorted by name.
func (a *A) Implementers(iface *types.Interface) []*types.Named {
	var out []*types.Named
	for _, p := range a.TPkgs {
		sc := p.Types.Scope()
		for _, nm := range sc.Names() {
			tn, ok := sc.Lookup(nm).(*types.TypeName)
			if !ok || tn.IsAlias() {
				continue
			}
			n, ok := tn.Type().(*types.Named)
			if !ok || types.IsInterface(n) {
				continue
			}
			if types.Implements(n, iface) || types.Implements(types.NewPointer(n), iface) {
				out = append(out, n)
			}
		}
	}
	sort.Slice(out, func(i, j int) bool { return qual(out[i]) < qual(out[j]) })
	return out
}

func qual(n *types.Named) string {
	if n.Obj().Pkg() == nil {
		return n.Obj().Name()
	}
	return relPath(n.Obj().Pkg().Path()) + "." + n.Obj().Name()
}

func relPath(p string) string {
	r := strings.TrimPrefix(strings.TrimPrefix(p, modPath), "/")
	if r == "" && p == modPath {
		return "streamsql"
	}
	return r
}

// fname gives a stable symbolic name for a function: pkg.(*T).M, pkg.F, or parent$n.
func fname(fn *ssa.Function) string {
	if fn == nil {
		return "<nil>"
	}
	if fn.Parent() != nil {
		idx := 0
		for i, af := range fn.Parent().AnonFuncs {
			if af == fn {
				idx = i + 1
			}
		}
		return fmt.Sprintf("%s$%d", fname(fn.Parent()), idx)
	}
	s := fn.String()
	s = strings.ReplaceAll(s, modPath+"/", "")
	s = strings.ReplaceAll(s, modPath+".", "streamsql.")
	return s
}

// ---------------------------------------------------------------- known findings

type KnownFinding struct {
	Property  string `json:"property"`
	Rule      string `json:"rule"`
	Construct string `json:"construct"`
	What      string `json:"what"`
	Status    string `json:"status"` // "open" or "fixed: <commit>"
}

func loadKnown(path string) ([]KnownFinding, error) {
	b, err := os.ReadFile(path)
	if err != nil {
		if os.IsNotExist(err) {
			return nil, nil
		}
		return nil, err
	}
	var kf struct {
		Findings []KnownFinding `json:"findings"`
	}
	if err := json.Unmarshal(b, &kf); err != nil {
		return nil, err
	}
	return kf.Findings, nil
}

// ---------------------------------------------------------------- running and reporting

type runResult struct {
	violations int
	known      int
}

func treeHash(repo string) string {
	h := sha256.New()
	var files []string
	filepath.Walk(repo, func(p string, fi os.FileInfo, err error) error {
		if err != nil {
			return nil
		}
		if fi.IsDir() {
			if fi.Name() == ".git" {
				return filepath.SkipDir
			}
			return nil
		}
		if strings.HasSuffix(p, ".go") && !strings.HasSuffix(p, "_test.go") || fi.Name() == "go.mod" {
			files = append(files, p)
		}
		return nil
	})
	sort.Strings(files)
	for _, f := range files {
		b, _ := os.ReadFile(f)
		fmt.Fprintf(h, "%s %d\n", f, len(b))
		h.Write(b)
	}
	return fmt.Sprintf("%x", h.Sum(nil))[:16]
}

// floorFailures: one undecided obligation per rule that produced fewer obligations than the floor
// confirmed by hand (vacuity guard).
func (a *A) floorFailures() []*Ob {
	counts := map[string]int{}
	for _, o := range a.obs {
		counts[o.Rule]++
	}
	var floorRules []string
	for r := range a.floors {
		floorRules = append(floorRules, r)
	}
	sort.Strings(floorRules)
	var out []*Ob
	for _, r := range floorRules {
		if counts[r] < a.floors[r] {
			out = append(out, &Ob{Rule: "checker-integrity", Construct: r + "#floor", Verdict: Undecided,
				Detail: fmt.Sprintf("rule %s produced %d obligations, floor confirmed by hand is %d — the rule has gone (partly) blind", r, counts[r], a.floors[r])})
		}
	}
	return out
}

func (a *A) finish(p *Prop, verifDir string, seed int64, start time.Time, extraInfo map[string]any) int {
	if len(newFlagsSeen) > 0 {
		var fs []string
		for f := range newFlagsSeen {
			fs = append(fs, f)
		}
		sort.Strings(fs)
		a.Info("new_options_assumed_off", map[string]any{"fields": fs,
			"note": "boolean struct fields that the inventory does not list: path conditions were evaluated with them false (their zero value, the behaviour the rules were calibrated on); what happens only with such an option on is not judged"})
	}
	for _, o := range a.floorFailures() {
		a.curRule = "checker-integrity"
		a.add(o)
	}
	known, err := loadKnown(filepath.Join(verifDir, "known_findings.json"))
	if err != nil {
		a.add(&Ob{Rule: "checker-integrity", Construct: "known_findings.json", Verdict: Undecided, Detail: err.Error()})
	}
	kset := map[string]KnownFinding{}
	for _, k := range known {
		if k.Property == p.ID && k.Status == "open" {
			kset[k.Rule+" "+k.Construct] = k
		}
	}
	var lines []string
	viol, knownHit, discharged, nontriv := 0, 0, 0, 0
	distinct := map[string]bool{}
	// findings of the audit (reproduced defects of the property that no structural rule decides): listed
	// by their failing input, printed on every run; they suppress nothing
	for _, k := range known {
		if k.Property == p.ID && k.Status == "open" && k.Rule == "audit" {
			knownHit++
			lines = append(lines, fmt.Sprintf("KNOWN-FINDING: property=%s audit %s %s", p.ID, k.Construct, k.What))
		}
	}
	for _, o := range a.obs {
		switch o.Verdict {
		case Discharged:
			discharged++
		default:
			if k, ok := kset[o.Rule+" "+o.Construct]; ok {
				o.Known = true
				knownHit++
				lines = append(lines, fmt.Sprintf("KNOWN-FINDING: property=%s %s %s %s", p.ID, o.Rule, o.Construct, k.What))
			} else {
				viol++
			}
		}
		if !o.Trivial {
			k := o.Rule + " " + o.Construct
			if !distinct[k] {
				distinct[k] = true
				nontriv++
			}
		}
	}
	// report file
	os.MkdirAll(filepath.Join(verifDir, "reports"), 0o755)
	os.MkdirAll(filepath.Join(verifDir, "evidence"), 0o755)
	repPath := filepath.Join(verifDir, "reports", fmt.Sprintf("%s-%s.txt", p.ID, a.Tier))
	var sb strings.Builder
	fmt.Fprintf(&sb, "property %s tier %s repo %s tree %s\n", p.ID, a.Tier, a.Repo, treeHash(a.Repo))
	fmt.Fprintf(&sb, "obligations %d discharged %d failing %d known-findings %d\n\n", len(a.obs), discharged, viol, knownHit)
	for _, o := range a.obs {
		if o.Verdict != Discharged {
			tag := "FAIL"
			if o.Known {
				tag = "KNOWN"
			}
			fmt.Fprintf(&sb, "%s [%s] rule=%s construct=%s at %s\n    %s\n", tag, o.Verdict, o.Rule, o.Construct, o.Pos, o.Detail)
		}
	}
	fmt.Fprintf(&sb, "\n--- all obligations ---\n")
	for _, o := range a.obs {
		fmt.Fprintf(&sb, "%-17s %s  %s  %s  %s\n", o.Verdict, o.Rule, o.Construct, o.Pos, firstLine(o.Detail))
	}
	os.WriteFile(repPath, []byte(sb.String()), 0o644)

	// evidence
	var samples []any
	perRule := map[string]int{}
	for _, o := range a.obs {
		perRule[o.Rule]++
		if perRule[o.Rule] <= 2 && len(samples) < 24 {
			samples = append(samples, o)
		}
	}
	ruleCounts := map[string]any{}
	for r, c := range perRule {
		ruleCounts[r] = map[string]int{"obligations": c, "floor": a.floors[r]}
	}
	cov := map[string]any{
		"explanation": "DECIDED (structural clauses, each a necessary condition of the property): " + p.Decided +
			" NOT DECIDED (value-level, out of reach of static analysis): " + p.NotDecided,
		"obligations":         len(a.obs),
		"discharged":          discharged,
		"evaluations":         len(a.obs),
		"distinct_nontrivial": nontriv,
		"rule": "one obligation per construct a rule instance quantifies over (call site, store, loop, implementation, encoder, table row); " +
			"distinct = distinct rule+construct keys; non-trivial = the rule had something to decide at that construct (not flagged trivial)",
		"samples":        samples,
		"rules":          ruleCounts,
		"packages":       len(a.TPkgs),
		"ssa_functions":  len(a.allFuncs),
		"mod_functions":  len(a.ModFuncs),
		"tree_hash":      treeHash(a.Repo),
		"toolchain":      runtime.Version(),
		"known_findings": knownHit,
		"report":         repPath,
	}
	for k, v := range a.info {
		cov[k] = v
	}
	for k, v := range extraInfo {
		cov[k] = v
	}
	// the behaviour-preserving changes on which this property's check is known to alarm (refactors/limits): the
	// honest list of forms the rules do not yet tell from a violation
	var limits []string
	if ms, _ := filepath.Glob(filepath.Join(verifDir, "refactors", "limits", "*.diff")); len(ms) > 0 {
		for _, m := range ms {
			limits = append(limits, filepath.Base(m))
		}
		sort.Strings(limits)
	}
	cov["known_false_alarms"] = map[string]any{
		"stored_under": "refactors/limits/ (README.md names the rule and the unrecognised form of each)",
		"all":          limits,
		"note":         "each is a behaviour- or property-preserving change on which at least one check alarms; the tree is right and the check is wrong there. They are excluded from the self-tests and are not known findings.",
	}
	ev := map[string]any{
		"property_id": p.ID,
		"tier":        a.Tier,
		"seed":        seed,
		"level":       "other",
		"coverage":    cov,
		"assumptions": append([]string{
			"go/types and go/ssa (x/tools) faithfully represent the compiled program; build tags: default set",
			"verdicts concern the named structural clauses only, not the behaviour as a whole",
			"functions that are not in sa/inventory.txt are inlined at their same-package call sites before the analysis (x/tools inliner + literal flattening, re-type-checked at every step): the normalised program is assumed to behave like the one on disk; what was inlined is listed under coverage.helper_normalisation. Two cases in which it did not (an inliner binding that shadowed a caller variable, a range variable moved into a closure) were found by the false-alarm rounds and are guarded now (DESIGN 9.13, 9.14); on the unchanged tree nothing is inlined",
			"the rules read the shape of one implementation: a re-expression of an algorithm (see coverage.known_false_alarms) can make a check alarm although the property holds",
		}, p.Assumptions...),
		"wall_s":     time.Since(start).Seconds(),
		"violations": viol,
	}
	b, _ := json.MarshalIndent(ev, "", " ")
	os.WriteFile(filepath.Join(verifDir, "evidence", p.ID+".json"), b, 0o644)

	fmt.Printf("%s %s: %d obligations, %d discharged, %d failing, %d known findings (%.1fs) report=%s\n",
		p.ID, a.Tier, len(a.obs), discharged, viol, knownHit, time.Since(start).Seconds(), repPath)
	for _, l := range lines {
		fmt.Println(l)
	}
	if viol > 0 {
		for _, o := range a.obs {
			if o.Verdict != Discharged && !o.Known {
				fmt.Printf("  FAIL [%s] %s %s at %s: %s\n", o.Verdict, o.Rule, o.Construct, o.Pos, firstLine(o.Detail))
			}
		}
		fmt.Printf("VIOLATION property=%s replay=%s\n", p.ID, repPath)
		return 1
	}
	return 0
}

func firstLine(s string) string {
	if i := strings.IndexByte(s, '\n'); i >= 0 {
		return s[:i]
	}
	return s
}

// ssaPkgOf: the package a function belongs to; for an instance of a generic function (whose Pkg is
// nil) the package of the generic, for a closure that of its outermost parent.
func ssaPkgOf(fn *ssa.Function) *ssa.Package {
	for fn.Parent() != nil {
		fn = fn.Parent()
	}
	if fn.Pkg != nil {
		return fn.Pkg
	}
	if o := fn.Origin(); o != nil && o.Pkg != nil {
		return o.Pkg
	}
	return nil
}

// methodsOf: the methods of named type N declared in the module (pointer and value receivers), in
// source order.
func (a *A) methodsOf(N *types.Named) []*ssa.Function {
	var out []*ssa.Function
	for _, fn := range a.ModFuncs {
		if fn.Parent() != nil || fn.Signature.Recv() == nil || fn.Blocks == nil {
			continue
		}
		if types.Identical(derefT(fn.Signature.Recv().Type()), N) {
			out = append(out, fn)
		}
	}
	return out
}
