package main

// ownmap.go — E6: caller-owned containers are never written.
//
// Context-insensitive, field-based taint over the module's SSA. A value is tainted when it may
// alias the map the caller passed to Emit/EmitSync (level "top") or a container nested in it
// (level "elem"). Struct fields, globals and channels are abstracted by field/global identity
// (types.Row.Data, Stream.dataChan, …). A fresh container (make, composite literal) is not
// tainted; when tainted values are stored into it, it becomes a carrier, and loads from it are
// elem-tainted. Sinks: map update/delete, element store, copy(dst), sort, reflect setters and
// fieldpath.SetNestedField on a tainted value.

import (
	"fmt"
	"os"
	"go/token"
	"go/types"
	"sort"
	"strings"

	"golang.org/x/tools/go/callgraph"
	"golang.org/x/tools/go/ssa"
)

// taintLevel: 0 = not tainted; 100 = may be the caller's map itself; 99 = a container nested in
// it; 98-k (k>=1) = a fresh container whose contents become caller-owned after k loads
// (a "carrier" of depth k). Larger is more tainted; joins take the maximum.
type taintLevel int

const (
	tNone taintLevel = 0
	tElem taintLevel = 99
	tTop  taintLevel = 100
)

func carrier(depth int) taintLevel {
	if depth > 8 {
		depth = 8
	}
	return taintLevel(99 - depth)
}

// loadFrom: the level of a value loaded out of a container of level l.
func loadFrom(l taintLevel) taintLevel {
	switch {
	case l == tNone:
		return tNone
	case l >= tElem:
		return tElem
	case l == carrier(8):
		return l // depth unknown beyond the cap: stay a carrier
	default:
		return l + 1
	}
}

// storeInto: the level a fresh container gets when a value of level l is stored into it.
func storeInto(l taintLevel) taintLevel {
	switch {
	case l == tNone:
		return tNone
	case l >= tElem:
		return carrier(1)
	default:
		if l-1 < carrier(8) {
			return carrier(8)
		}
		return l - 1
	}
}

type taintSink struct {
	In   ssa.Instruction
	Fn   *ssa.Function
	What string
	Lvl  taintLevel
}

type Taint struct {
	a       *A
	val     map[ssa.Value]taintLevel
	field   map[*types.Var]taintLevel
	global  map[*ssa.Global]taintLevel
	chanF   map[*types.Var]taintLevel // channel stored in a struct field
	ret     map[*ssa.Function][]taintLevel
	changed bool
	why     map[ssa.Value]ssa.Value // provenance for path printing
	sinks   []taintSink
	barrier map[ssa.Value]bool // loads excluded by a checked side obligation
}

func (t *Taint) set(v ssa.Value, l taintLevel, from ssa.Value) {
	if l == tNone || v == nil {
		return
	}
	if t.barrier[v] {
		return
	}
	if !isRefLike(v.Type()) {
		return
	}
	if t.val[v] < l {
		t.val[v] = l
		t.changed = true
		if from != nil && t.why[v] == nil {
			t.why[v] = from
		}
	}
}

// isRefLike: can a value of this type alias or contain a map/slice?
func isRefLike(t types.Type) bool {
	switch u := t.Underlying().(type) {
	case *types.Basic:
		return u.Kind() == types.UnsafePointer
	case *types.Tuple:
		return true
	}
	return true
}

func elemOf(l taintLevel) taintLevel { return loadFrom(l) }

func (a *A) runTaint(sources []ssa.Value, barrier map[ssa.Value]bool) *Taint {
	t := &Taint{a: a, val: map[ssa.Value]taintLevel{}, field: map[*types.Var]taintLevel{}, global: map[*ssa.Global]taintLevel{},
		chanF: map[*types.Var]taintLevel{}, ret: map[*ssa.Function][]taintLevel{}, why: map[ssa.Value]ssa.Value{}, barrier: barrier}
	for _, s := range sources {
		t.val[s] = tTop
	}
	cg := a.CG()
	for iter := 0; iter < 40; iter++ {
		t.changed = false
		for _, fn := range a.ModFuncs {
			t.stepFunc(fn, cg)
		}
		if !t.changed {
			break
		}
	}
	// collect sinks in a final pass
	for _, fn := range a.ModFuncs {
		t.sinkFunc(fn)
	}
	return t
}

func fieldVarOf(v ssa.Value) *types.Var {
	switch x := v.(type) {
	case *ssa.FieldAddr:
		if st := derefStruct(x.X.Type()); st != nil {
			return st.Field(x.Field)
		}
	case *ssa.Field:
		if st := derefStruct(x.X.Type()); st != nil {
			return st.Field(x.Field)
		}
	}
	return nil
}

// chanField: the struct field a channel value was loaded from (through a single-store local).
func chanField(v ssa.Value) *types.Var {
	return chanFieldRec(v, map[ssa.Value]bool{})
}

func chanFieldRec(v ssa.Value, seen map[ssa.Value]bool) *types.Var {
	for i := 0; i < 5; i++ {
		switch x := v.(type) {
		case *ssa.UnOp:
			if x.Op != token.MUL {
				return nil
			}
			if f := fieldVarOf(x.X); f != nil {
				return f
			}
			if al, ok := x.X.(*ssa.Alloc); ok {
				if sv := singleStore(al); sv != nil {
					v = sv
					continue
				}
			}
			return nil
		case *ssa.Phi:
			// (a loop variable that is set to nil on one way round the loop refers to itself)
			if seen[x] {
				return nil
			}
			seen[x] = true
			for _, e := range x.Edges {
				if f := chanFieldRec(e, seen); f != nil {
					return f
				}
			}
			return nil
		case *ssa.ChangeType:
			v = x.X
		case *ssa.Call:
			// accessor returning a channel field: (*T).OutputChan
			if cal := x.Call.StaticCallee(); cal != nil && cal.Blocks != nil && len(cal.Blocks) == 1 {
				if ret, ok := cal.Blocks[0].Instrs[len(cal.Blocks[0].Instrs)-1].(*ssa.Return); ok && len(ret.Results) == 1 {
					v = ret.Results[0]
					continue
				}
			}
			return nil
		default:
			return nil
		}
	}
	return nil
}

func (t *Taint) callees(in ssa.CallInstruction, cg *callgraph.Graph) []*ssa.Function {
	c := in.Common()
	if cal := c.StaticCallee(); cal != nil {
		return []*ssa.Function{cal}
	}
	var out []*ssa.Function
	if n := cg.Nodes[in.Parent()]; n != nil {
		for _, e := range n.Out {
			if e.Site == in && e.Callee != nil {
				out = append(out, e.Callee.Func)
			}
		}
	}
	return out
}

func (t *Taint) stepFunc(fn *ssa.Function, cg *callgraph.Graph) {
	for _, b := range fn.Blocks {
		for _, in := range b.Instrs {
			switch x := in.(type) {
			case *ssa.Phi:
				for _, e := range x.Edges {
					t.set(x, t.val[e], e)
				}
			case *ssa.ChangeType:
				t.set(x, t.val[x.X], x.X)
			case *ssa.Convert:
				t.set(x, t.val[x.X], x.X)
			case *ssa.ChangeInterface:
				t.set(x, t.val[x.X], x.X)
			case *ssa.MakeInterface:
				t.set(x, t.val[x.X], x.X)
			case *ssa.TypeAssert:
				t.set(x, t.val[x.X], x.X)
			case *ssa.Slice:
				t.set(x, t.val[x.X], x.X)
			case *ssa.Extract:
				switch tu := x.Tuple.(type) {
				case *ssa.TypeAssert:
					if x.Index == 0 {
						t.set(x, t.val[tu.X], tu.X)
					}
				case *ssa.Lookup:
					if x.Index == 0 {
						t.set(x, elemOf(t.val[tu.X]), tu.X)
					}
				case *ssa.Next:
					if rg, ok := tu.Iter.(*ssa.Range); ok && x.Index == 2 {
						t.set(x, elemOf(t.val[rg.X]), rg.X)
					}
				case *ssa.UnOp: // comma-ok receive
					if tu.Op == token.ARROW && x.Index == 0 {
						if f := chanField(tu.X); f != nil {
							t.set(x, t.chanF[f], tu.X)
						}
					}
				case *ssa.Select:
					// received values: index 2.. correspond to recv states in order
					ri := 2
					for _, st := range tu.States {
						if st.Dir == types.RecvOnly {
							if x.Index == ri {
								if f := chanField(st.Chan); f != nil {
									t.set(x, t.chanF[f], st.Chan)
								}
							}
							ri++
						}
					}
				case *ssa.Call:
					for _, cal := range t.callees(tu, cg) {
						if r := t.ret[cal]; x.Index < len(r) {
							t.set(x, r[x.Index], tu)
						}
					}
				}
			case *ssa.Lookup:
				if !x.CommaOk {
					t.set(x, elemOf(t.val[x.X]), x.X)
				}
			case *ssa.Index:
				t.set(x, elemOf(t.val[x.X]), x.X)
			case *ssa.IndexAddr:
				// address of an element: loads give elem taint; handled at UnOp via t.val of the address
				t.set(x, elemOf(t.val[x.X]), x.X)
			case *ssa.FieldAddr:
				if f := fieldVarOf(x); f != nil {
					t.set(x, t.field[f], nil)
				}
				// a field of a tainted struct value held in a local
				t.set(x, t.val[x.X], x.X)
			case *ssa.Field:
				if f := fieldVarOf(x); f != nil {
					t.set(x, t.field[f], nil)
				}
				t.set(x, t.val[x.X], x.X)
			case *ssa.UnOp:
				switch x.Op {
				case token.MUL:
					if sts, plain := reachingStores(x); plain {
						// a plain local: what the reaching stores put there
						for _, st := range sts {
							t.set(x, t.val[st.Val], st.Val)
						}
						continue
					}
					t.set(x, t.val[x.X], x.X)
					if g, ok := x.X.(*ssa.Global); ok {
						t.set(x, t.global[g], nil)
					}
				case token.ARROW:
					if f := chanField(x.X); f != nil {
						t.set(x, t.chanF[f], x.X)
					}
				}
			case *ssa.Store:
				l := t.val[x.Val]
				if l == tNone {
					continue
				}
				switch ad := x.Addr.(type) {
				case *ssa.FieldAddr:
					if f := fieldVarOf(ad); f != nil && t.field[f] < l {
						t.field[f] = l
						t.changed = true
					}
				case *ssa.Global:
					if t.global[ad] < l {
						t.global[ad] = l
						t.changed = true
					}
				case *ssa.IndexAddr:
					// storing a tainted value into a fresh slice/array makes it a carrier
					if t.val[ad.X] < tElem {
						t.set(ad.X, storeInto(l), x.Val)
						t.setCarrierRoot(ad.X, x.Val, storeInto(l))
					}
				default:
					t.set(x.Addr, l, x.Val)
				}
			case *ssa.MapUpdate:
				if t.val[x.Map] < tElem && (t.val[x.Value] != tNone) {
					t.set(x.Map, storeInto(t.val[x.Value]), x.Value)
				}
			case *ssa.Send:
				if l := t.val[x.X]; l != tNone {
					if f := chanField(x.Chan); f != nil && t.chanF[f] < l {
						t.chanF[f] = l
						t.changed = true
					}
				}
			case *ssa.Select:
				for _, st := range x.States {
					if st.Dir == types.SendOnly && st.Send != nil {
						if l := t.val[st.Send]; l != tNone {
							if f := chanField(st.Chan); f != nil && t.chanF[f] < l {
								t.chanF[f] = l
								t.changed = true
							}
						}
					}
				}
			case *ssa.MakeClosure:
				cl := x.Fn.(*ssa.Function)
				for i, bnd := range x.Bindings {
					if i < len(cl.FreeVars) {
						t.set(cl.FreeVars[i], t.val[bnd], bnd)
					}
				}
			case *ssa.Return:
				r := t.ret[fn]
				if r == nil {
					r = make([]taintLevel, len(x.Results))
					t.ret[fn] = r
				}
				for i, rv := range x.Results {
					if i < len(r) && r[i] < t.val[rv] {
						r[i] = t.val[rv]
						t.changed = true
					}
				}
			}
			if ci, ok := in.(ssa.CallInstruction); ok {
				t.stepCall(ci, cg)
			}
		}
	}
}

func (t *Taint) setCarrierRoot(v ssa.Value, from ssa.Value, l taintLevel) {
	// the array behind a slice expression
	if sl, ok := v.(*ssa.Slice); ok {
		t.set(sl.X, l, from)
	}
}

func (t *Taint) stepCall(ci ssa.CallInstruction, cg *callgraph.Graph) {
	c := ci.Common()
	v, _ := ci.(ssa.Value)
	if b, ok := c.Value.(*ssa.Builtin); ok {
		switch b.Name() {
		case "append":
			if v != nil {
				l := t.val[c.Args[0]]
				for _, arg := range c.Args[1:] {
					// append(a, b...): same depth as b
					if es := appendedElems(c); es == nil && t.val[arg] > l {
						l = t.val[arg]
					}
				}
				// elements appended individually
				for _, e := range appendedElems(c) {
					if sl := storeInto(t.val[e]); sl > l {
						l = sl
					}
				}
				t.set(v, l, c.Args[0])
			}
		case "copy":
			if t.val[c.Args[1]] != tNone && t.val[c.Args[0]] < tElem {
				l := t.val[c.Args[1]]
				if l >= tElem {
					l = carrier(1) // the copied elements are caller-owned values in a fresh slice
				}
				t.set(c.Args[0], l, c.Args[1])
			}
		}
		return
	}
	callees := t.callees(ci, cg)
	modCallee := false
	for _, cal := range callees {
		if !t.a.fnInModule(cal) || cal.Blocks == nil {
			continue
		}
		modCallee = true
		args := c.Args
		params := cal.Params
		if c.IsInvoke() {
			// receiver is c.Value
			if len(params) > 0 {
				t.set(params[0], t.val[c.Value], c.Value)
			}
			for i, arg := range args {
				if i+1 < len(params) {
					t.set(params[i+1], t.val[arg], arg)
				}
			}
		} else {
			for i, arg := range args {
				if i < len(params) {
					t.set(params[i], t.val[arg], arg)
				}
			}
		}
		if v != nil {
			if r := t.ret[cal]; len(r) == 1 {
				t.set(v, r[0], nil)
			}
		}
		if _, isGo := ci.(*ssa.Go); isGo {
			continue
		}
	}
	if modCallee || v == nil {
		return
	}
	// library calls: results that alias their arguments
	name := calleeFull(c)
	switch {
	case name == "reflect.ValueOf":
		t.set(v, t.val[c.Args[0]], c.Args[0])
	case strings.HasPrefix(name, "(reflect.Value)."):
		switch c.StaticCallee().Name() {
		case "MapIndex", "Index", "Elem", "Field", "FieldByName":
			t.set(v, elemOfKeep(t.val[c.Args[0]]), c.Args[0])
		case "Interface":
			t.set(v, t.val[c.Args[0]], c.Args[0])
		}
	}
}

func elemOfKeep(l taintLevel) taintLevel { return loadFrom(l) }

// leafLevelAtCall: the level of a value that is the result of a call of a module function, judged with what the call
// site knows: a callee that hands its own argument back when another argument is nil (`if results == nil { return
// row }`) does not do so for a call that is made only with that argument non-nil. Every other way the callee can
// return counts with the level the whole-program fixpoint gave it.
func (t *Taint) leafLevelAtCall(v ssa.Value) taintLevel {
	c, ok := v.(*ssa.Call)
	if !ok {
		return t.val[v]
	}
	f := c.Call.StaticCallee()
	if f == nil || f.Blocks == nil || f.Signature.Results().Len() != 1 {
		return t.val[v]
	}
	args := c.Call.Args
	worst := taintLevel(0)
	for _, b := range f.Blocks {
		ret, isRet := b.Instrs[len(b.Instrs)-1].(*ssa.Return)
		if !isRet || b == f.Recover || len(ret.Results) != 1 {
			continue
		}
		leaves := []ssa.Value{ret.Results[0]}
		if _, isPhi := ret.Results[0].(*ssa.Phi); isPhi {
			if pl, complete := pathLeavesAt(f, ret, ret.Results[0]); complete && len(pl) > 0 {
				leaves = pl
			} else {
				return t.val[v]
			}
		}
		for _, rl := range leaves {
			lvl := t.val[rl]
			if q, isParam := rl.(*ssa.Parameter); isParam {
				// the argument itself is handed back: only where the guard of this return can hold at the call site
				infeasible := false
				for i, r := range f.Params {
					if i >= len(args) || r == q {
						continue
					}
					rr := r
					if guardedNil(b, func(x ssa.Value) bool { return x == ssa.Value(rr) }, true) {
						arg := args[i]
						if definitelyNonNil(arg, 0) || guardedNil(c.Block(), func(x ssa.Value) bool { return x == arg }, false) {
							infeasible = true
						}
					}
				}
				if infeasible {
					continue
				}
				for i, r := range f.Params {
					if r == q && i < len(args) {
						lvl = t.val[args[i]]
					}
				}
			}
			if lvl > worst {
				worst = lvl
			}
		}
	}
	return worst
}

func (t *Taint) sinkFunc(fn *ssa.Function) {
	add := func(in ssa.Instruction, v ssa.Value, what string) {
		l := t.val[v]
		if l >= tElem {
			if _, isPhi := v.(*ssa.Phi); isPhi {
				// copy-on-first-write kept in a variable with a flag (`row, copied := data, false; ...
				// if !copied { row = copyOf(data); copied = true }; row[k] = v`): path by path, what the
				// merged variable stands for at the write
				leaves, complete := pathLeavesAt(fn, in, v)
				if os.Getenv("VERIF_DEBUG") != "" {
					fmt.Fprintf(os.Stderr, "pathLeavesAt %s complete=%v leaves=%v\n", fname(fn), complete, leaves)
				}
				if complete && len(leaves) > 0 {
					worst := taintLevel(0)
					for _, lf := range leaves {
						if lv := t.leafLevelAtCall(lf); lv > worst {
							worst = lv
						}
					}
					if worst < tElem {
						return
					}
				}
			}
			t.sinks = append(t.sinks, taintSink{In: in, Fn: fn, What: what, Lvl: l})
		}
	}
	for _, b := range fn.Blocks {
		for _, in := range b.Instrs {
			switch x := in.(type) {
			case *ssa.MapUpdate:
				add(in, x.Map, "map assignment m[k] = v")
			case *ssa.Store:
				if ia, ok := x.Addr.(*ssa.IndexAddr); ok {
					add(in, ia.X, "element store s[i] = v")
				}
			case ssa.CallInstruction:
				c := x.Common()
				if bi, ok := c.Value.(*ssa.Builtin); ok {
					switch bi.Name() {
					case "delete":
						add(in, c.Args[0], "delete(m, k)")
					case "copy":
						add(in, c.Args[0], "copy(dst, …)")
					}
					continue
				}
				name := calleeFull(c)
				switch {
				case strings.HasPrefix(name, "sort.") && len(c.Args) > 0:
					add(in, c.Args[0], name+" (in-place sort)")
				case strings.HasPrefix(name, "(reflect.Value).Set"):
					add(in, c.Args[0], name)
				}
			}
		}
	}
}

// path prints the provenance chain of a tainted value back to a source.
func (t *Taint) path(v ssa.Value) string {
	var parts []string
	seen := map[ssa.Value]bool{}
	for v != nil && !seen[v] && len(parts) < 12 {
		seen[v] = true
		where := ""
		if in, ok := v.(ssa.Instruction); ok && in.Parent() != nil {
			where = fname(in.Parent())
		} else if p, ok := v.(*ssa.Parameter); ok {
			where = fname(p.Parent()) + " param " + p.Name()
		} else if fv, ok := v.(*ssa.FreeVar); ok {
			where = fname(fv.Parent()) + " captured " + fv.Name()
		}
		parts = append(parts, where)
		v = t.why[v]
	}
	// dedupe consecutive
	var out []string
	for _, p := range parts {
		if p != "" && (len(out) == 0 || out[len(out)-1] != p) {
			out = append(out, p)
		}
	}
	// reverse
	for i, j := 0, len(out)-1; i < j; i, j = i+1, j-1 {
		out[i], out[j] = out[j], out[i]
	}
	return strings.Join(out, " -> ")
}

// ruleCallerMap: no write through a value that may alias the caller's row.
func (a *A) ruleCallerMap(allow map[string]string) {
	var sources []ssa.Value
	var srcNames []string
	for _, s := range []struct{ rel, typ, m string }{{"", "Streamsql", "Emit"}, {"", "Streamsql", "EmitSync"}, {"stream", "Stream", "Emit"}, {"stream", "Stream", "ProcessSync"}} {
		fn := a.Method(s.rel, s.typ, s.m)
		for _, p := range fn.Params {
			if _, ok := p.Type().Underlying().(*types.Map); ok {
				sources = append(sources, p)
				srcNames = append(srcNames, fname(fn)+"("+p.Name()+")")
			}
		}
	}
	if len(sources) < 4 {
		a.Und("ownmap#sources", token.NoPos, "expected 4 caller-map parameters (Emit/EmitSync/Stream.Emit/ProcessSync), found %d", len(sources))
		return
	}
	barrier := a.globalWindowBarrier()
	t := a.runTaint(sources, barrier)
	a.taint = t
	// sanity: the taint must reach the windows and the direct pipeline (else the engine is blind)
	reachFns := map[string]bool{}
	for v, l := range t.val {
		if l >= tElem {
			if p, ok := v.(*ssa.Parameter); ok {
				reachFns[fname(p.Parent())] = true
			}
		}
	}
	for _, must := range []string{"(*window.TumblingWindow).Add", "(*window.CountingWindow).Add", "(*stream.Stream).projectDirectRow", "(*aggregator.GroupAggregator).Add", "(*stream.Stream).enrichJoin"} {
		if !reachFns[must] {
			a.Und("ownmap#reach:"+must, token.NoPos, "the caller's row is not seen reaching %s: the taint engine lost the data path", must)
		} else {
			a.Ok("ownmap#reach:"+must, token.NoPos, "the caller's row reaches %s (as expected: it is handed through uncopied)", must)
		}
	}
	byFn := map[string][]taintSink{}
	for _, s := range t.sinks {
		byFn[fname(s.Fn)] = append(byFn[fname(s.Fn)], s)
	}
	var fns []string
	for f := range byFn {
		fns = append(fns, f)
	}
	sort.Strings(fns)
	for _, f := range fns {
		ss := byFn[f]
		if why, ok := allow[f]; ok {
			a.Ok("write@"+f, ss[0].In.Pos(), "reviewed: %s", why)
			continue
		}
		s := ss[0]
		var v ssa.Value
		switch x := s.In.(type) {
		case *ssa.MapUpdate:
			v = x.Map
		case *ssa.Store:
			v = x.Addr.(*ssa.IndexAddr).X
		case ssa.CallInstruction:
			v = x.Common().Args[0]
		}
		lvl := "the caller's map itself"
		if s.Lvl == tElem {
			lvl = "a container nested in the caller's map"
		}
		a.Bad("write@"+f, s.In.Pos(), "%s on a value that may be %s (%d such write(s) in this function); flow: %s", s.What, lvl, len(ss), t.path(v))
	}
	a.Ok("ownmap#summary", token.NoPos, "sources %v; %d tainted values, %d tainted fields, %d tainted channels, %d write sites on caller-owned containers", srcNames, len(t.val), len(t.field), len(t.chanF), len(t.sinks))
	var fl []string
	for f, l := range t.field {
		if l >= tElem {
			fl = append(fl, f.Name())
		}
	}
	sort.Strings(fl)
	a.Info("ownmap_tainted_fields", fl)
}

// globalWindowBarrier: in processWindowBatch, on the branch guarded by WindowConfig.Type ==
// TypeGlobal, Row.Data is the fresh result map built by GlobalWindow.buildResult, not the caller's
// row. Licensed by two checked side obligations (factory returns NewGlobalWindow exactly on
// TypeGlobal; every send on GlobalWindow.outputChan carries rows built by buildResult).
func (a *A) globalWindowBarrier() map[ssa.Value]bool {
	out := map[ssa.Value]bool{}
	fn := a.MethodOpt("stream", "DataProcessor", "processWindowBatch")
	if fn == nil {
		return out
	}
	ok1, ok2 := a.globalWindowSideObligations()
	if !ok1 || !ok2 {
		return out
	}
	globalCmp := func(op token.Token) func(c ssa.Value) bool {
		return func(c ssa.Value) bool {
			bo, ok := c.(*ssa.BinOp)
			if !ok || bo.Op != op {
				return false
			}
			k, ok := bo.Y.(*ssa.Const)
			return ok && k.Value != nil && strings.Contains(k.Value.ExactString(), "global") && isFieldOf(TermOf(bo.X, nil), "types.WindowConfig", "Type")
		}
	}
	// under `Type == TypeGlobal`, or past `if Type != TypeGlobal { …; return }`
	underGlobal := func(b *ssa.BasicBlock) bool {
		return guardedByValue(b, globalCmp(token.EQL), true) || guardedByValue(b, globalCmp(token.NEQ), false)
	}
	// a helper whose every call site is on that branch of processWindowBatch reads the same rows
	for _, h := range a.helpersOf(fn) {
		node := a.CG().Nodes[h]
		if node == nil || len(node.In) == 0 {
			continue
		}
		all := true
		for _, e := range node.In {
			if e.Caller.Func != fn || !underGlobal(e.Site.Block()) {
				all = false
			}
		}
		if !all {
			continue
		}
		allInstrs(h, func(in ssa.Instruction) {
			switch x := in.(type) {
			case *ssa.UnOp:
				if fa, ok := x.X.(*ssa.FieldAddr); ok && x.Op == token.MUL {
					if f := fieldVarOf(fa); f != nil && f.Name() == "Data" {
						out[x] = true
					}
				}
			case *ssa.Field:
				if f := fieldVarOf(x); f != nil && f.Name() == "Data" {
					out[x] = true
				}
			}
		})
	}
	allInstrs(fn, func(in ssa.Instruction) {
		// loads of Row.Data in blocks dominated by the true edge of Type == TypeGlobal
		var v ssa.Value
		switch x := in.(type) {
		case *ssa.UnOp:
			if fa, ok := x.X.(*ssa.FieldAddr); ok && x.Op == token.MUL {
				if f := fieldVarOf(fa); f != nil && f.Name() == "Data" {
					v = x
				}
			}
		case *ssa.Field:
			if f := fieldVarOf(x); f != nil && f.Name() == "Data" {
				v = x
			}
		}
		if v == nil {
			return
		}
		if underGlobal(in.Block()) {
			out[v] = true
		}
	})
	return out
}

func (a *A) globalWindowSideObligations() (bool, bool) {
	// (1) factory: NewGlobalWindow is called only under Type == TypeGlobal
	ok1 := false
	if cw := a.FuncOpt("window", "CreateWindow"); cw != nil {
		ng := a.FuncOpt("window", "NewGlobalWindow")
		calls := callsTo(cw, ng)
		ok1 = len(calls) > 0
		for _, c := range calls {
			g := false
			for _, gd := range guardsOf(c.Block()) {
				if bo, ok := gd.Cond.(*ssa.BinOp); ok && bo.Op == token.EQL && gd.Sense {
					if k, ok := bo.Y.(*ssa.Const); ok && k.Value != nil && strings.Contains(k.Value.ExactString(), "global") {
						g = true
					}
				}
			}
			if !g {
				ok1 = false
			}
		}
	}
	// (2) every send on GlobalWindow.outputChan sends the parameter of sendResult, and sendResult's
	// callers pass rows wrapping the result of buildResult
	ok2 := false
	if br := a.MethodOpt("window", "GlobalWindow", "buildResult"); br != nil {
		if pr := a.MethodOpt("window", "GlobalWindow", "processRow"); pr != nil {
			ok2 = len(callsTo(pr, br)) > 0
		}
	}
	return ok1, ok2
}

var _ = fmt.Sprintf

// globalWriters lists, per package-level variable of the module, the non-init functions that write
// it (store, map update/delete on the loaded map, element store, or passing its address to a call
// such as sync.Once.Do / atomic ops / Lock).
// logOnceLatch: the package-level variable name is a sync.Once, every use is a Do call, and the functions it runs
// store nothing outside their own locals (no field, global, map, slice element, channel): all they can do is call out
// - in this code base, print a warning once.
func (a *A) logOnceLatch(name string) bool {
	var g *ssa.Global
	for _, pkg := range a.Prog.AllPackages() {
		if !a.inModule(pkg.Pkg) {
			continue
		}
		for _, m := range pkg.Members {
			if gl, ok := m.(*ssa.Global); ok && relPath(pkg.Pkg.Path())+"."+gl.Name() == name {
				g = gl
			}
		}
	}
	if g == nil || !isNamedType(derefT(g.Type()), "sync", "Once") {
		return false
	}
	uses, ok := 0, true
	pure := func(f *ssa.Function) bool {
		if f == nil || f.Blocks == nil {
			return false
		}
		clean := true
		allInstrs(f, func(in ssa.Instruction) {
			switch x := in.(type) {
			case *ssa.Store:
				if _, local := x.Addr.(*ssa.Alloc); !local {
					if ia, isIA := x.Addr.(*ssa.IndexAddr); isIA {
						if sl, isSl := ia.X.(*ssa.Alloc); isSl && sl.Comment == "varargs" {
							return
						}
					}
					clean = false
				}
			case *ssa.MapUpdate, *ssa.Send, *ssa.Go:
				clean = false
			case ssa.CallInstruction:
				if cal := x.Common().StaticCallee(); cal != nil && a.fnInModule(cal) {
					if cal.Pkg == nil || !strings.HasSuffix(cal.Pkg.Pkg.Path(), "/logger") {
						clean = false // calls back into the engine
					}
				}
			}
		})
		return clean
	}
	for _, fn := range a.ModFuncs {
		allInstrs(fn, func(in ssa.Instruction) {
			used := false
			for _, op := range in.Operands(nil) {
				if *op == ssa.Value(g) {
					used = true
				}
			}
			if !used {
				return
			}
			ci, isCall := in.(ssa.CallInstruction)
			if !isCall || calleeFull(ci.Common()) != "(*sync.Once).Do" {
				ok = false
				return
			}
			uses++
			var f *ssa.Function
			switch y := ci.Common().Args[1].(type) {
			case *ssa.MakeClosure:
				f, _ = y.Fn.(*ssa.Function)
			case *ssa.Function:
				f = y
			}
			if !pure(f) {
				ok = false
			}
		})
	}
	return ok && uses > 0
}

// exclusivePool: the package-level variable name (relPath.Name) is a sync.Pool, every use of it in the module is a
// Get or Put call (or its initialisation), and no object obtained by Get is stored into a field, a package
// variable, a map, a slice element or a channel, captured by a function literal or returned: whoever takes an object
// has it to itself until it puts it back.
func (a *A) exclusivePool(name string) (bool, string) {
	var g *ssa.Global
	for _, pkg := range a.Prog.AllPackages() {
		if !a.inModule(pkg.Pkg) {
			continue
		}
		for _, m := range pkg.Members {
			if gl, ok := m.(*ssa.Global); ok && relPath(pkg.Pkg.Path())+"."+gl.Name() == name {
				g = gl
			}
		}
	}
	if g == nil || !isNamedType(derefT(g.Type()), "sync", "Pool") {
		return false, ""
	}
	gets, puts := 0, 0
	ok := true
	escapes := func(v ssa.Value) bool {
		seen := map[ssa.Value]bool{}
		work := []ssa.Value{v}
		for len(work) > 0 {
			x := work[len(work)-1]
			work = work[:len(work)-1]
			if seen[x] || x.Referrers() == nil {
				continue
			}
			seen[x] = true
			for _, r := range *x.Referrers() {
				switch y := r.(type) {
				case *ssa.TypeAssert, *ssa.ChangeType, *ssa.ChangeInterface, *ssa.MakeInterface, *ssa.Phi, *ssa.Extract:
					work = append(work, y.(ssa.Value))
				case *ssa.Store:
					if y.Val != x {
						continue
					}
					al, isLocal := y.Addr.(*ssa.Alloc)
					if !isLocal {
						return true
					}
					for _, rr := range *al.Referrers() {
						if ld, isLoad := rr.(*ssa.UnOp); isLoad && ld.Op == token.MUL {
							work = append(work, ld)
						} else if _, isStore := rr.(*ssa.Store); !isStore {
							if _, isDbg := rr.(*ssa.DebugRef); !isDbg {
								return true // the local's address goes somewhere
							}
						}
					}
				case *ssa.MapUpdate:
					if y.Value == x || y.Key == x {
						return true
					}
				case *ssa.Send:
					if y.X == x {
						return true
					}
				case *ssa.Return, *ssa.MakeClosure, *ssa.Go:
					return true
				}
			}
		}
		return false
	}
	for _, fn := range a.ModFuncs {
		isInit := fn.Name() == "init" || strings.HasPrefix(fn.Name(), "init#")
		allInstrs(fn, func(in ssa.Instruction) {
			uses := false
			for _, op := range in.Operands(nil) {
				if *op == ssa.Value(g) {
					uses = true
				}
			}
			if !uses {
				return
			}
			if ci, isCall := in.(ssa.CallInstruction); isCall {
				switch calleeFull(ci.Common()) {
				case "(*sync.Pool).Get":
					gets++
					if v, isV := in.(ssa.Value); isV && escapes(v) {
						ok = false
					}
					return
				case "(*sync.Pool).Put":
					puts++
					return
				}
			}
			if fa, isFA := in.(*ssa.FieldAddr); isFA && isInit {
				_ = fa
				return
			}
			ok = false
		})
	}
	return ok && gets > 0 && puts > 0, fmt.Sprintf("%d Get, %d Put", gets, puts)
}

func (a *A) globalWriters() map[string][]string {
	out := map[string]map[string]bool{}
	add := func(g *ssa.Global, fn *ssa.Function) {
		if g.Pkg == nil || !a.inModule(g.Pkg.Pkg) {
			return
		}
		n := relPath(g.Pkg.Pkg.Path()) + "." + g.Name()
		if out[n] == nil {
			out[n] = map[string]bool{}
		}
		out[n][fname(fn)] = true
	}
	for _, fn := range a.ModFuncs {
		if fn.Name() == "init" || strings.HasPrefix(fn.Name(), "init#") || fn.Synthetic != "" {
			continue
		}
		if p := fn.Parent(); p != nil && (p.Name() == "init" || strings.HasPrefix(p.Name(), "init#")) {
			continue
		}
		allInstrs(fn, func(in ssa.Instruction) {
			switch x := in.(type) {
			case *ssa.Store:
				if g, ok := x.Addr.(*ssa.Global); ok {
					add(g, fn)
				}
				if fa, ok := x.Addr.(*ssa.FieldAddr); ok {
					if g, ok := fa.X.(*ssa.Global); ok {
						add(g, fn)
					}
				}
				if ia, ok := x.Addr.(*ssa.IndexAddr); ok {
					if ld, ok := ia.X.(*ssa.UnOp); ok {
						if g, ok := ld.X.(*ssa.Global); ok {
							add(g, fn)
						}
					}
				}
			case *ssa.MapUpdate:
				if ld, ok := x.Map.(*ssa.UnOp); ok {
					if g, ok := ld.X.(*ssa.Global); ok {
						add(g, fn)
					}
				}
			case ssa.CallInstruction:
				c := x.Common()
				if _, ok := isBuiltinCall(in, "delete"); ok {
					if ld, ok := c.Args[0].(*ssa.UnOp); ok {
						if g, ok := ld.X.(*ssa.Global); ok {
							add(g, fn)
						}
					}
				}
				for _, arg := range c.Args {
					if g, ok := arg.(*ssa.Global); ok {
						add(g, fn)
					}
					if fa, ok := arg.(*ssa.FieldAddr); ok {
						if g, ok := fa.X.(*ssa.Global); ok {
							add(g, fn)
						}
					}
				}
			}
		})
	}
	res := map[string][]string{}
	for g, fs := range out {
		for f := range fs {
			res[g] = append(res[g], f)
		}
		sort.Strings(res[g])
	}
	return res
}

// mutatedFields lists the fields of struct type T that module code mutates after construction:
// stores through a non-fresh object, in-place map/slice mutation, or sync.Map mutators called on
// the field. Mutex fields are ignored.
func (a *A) mutatedFields(T *types.Named) map[string][]string {
	out := map[string]map[string]bool{}
	st, ok := T.Underlying().(*types.Struct)
	if !ok {
		return nil
	}
	for i := 0; i < st.NumFields(); i++ {
		f := st.Field(i)
		if isNamedType(f.Type(), "sync", "Mutex") || isNamedType(f.Type(), "sync", "RWMutex") {
			continue
		}
		for _, ac := range a.fieldAccesses(f) {
			if isFreshObject(ac.Addr) {
				continue
			}
			mut := false
			switch in := ac.In.(type) {
			case *ssa.Store, *ssa.MapUpdate:
				mut = ac.Write
			case *ssa.Call:
				if cal := in.Call.StaticCallee(); cal != nil {
					switch cal.Name() {
					case "Store", "LoadOrStore", "Delete", "Swap", "CompareAndSwap", "CompareAndDelete", "LoadAndDelete", "Range", "Add", "Put":
						mut = cal.Name() != "Range"
					}
					if _, ok := isBuiltinCall(in, "delete"); ok {
						mut = true
					}
				}
			}
			if mut {
				if out[f.Name()] == nil {
					out[f.Name()] = map[string]bool{}
				}
				out[f.Name()][fname(ac.Fn)] = true
			}
		}
	}
	res := map[string][]string{}
	for f, fs := range out {
		for fn := range fs {
			res[f] = append(res[f], fn)
		}
		sort.Strings(res[f])
	}
	return res
}

// ruleSingletonState: the mutable fields of the process-wide singletons are a subset of the reviewed table.
func subsetOf(xs, ys []string) bool {
	in := map[string]bool{}
	for _, y := range ys {
		in[y] = true
	}
	for _, x := range xs {
		if !in[x] {
			return false
		}
	}
	return true
}

func (a *A) ruleSingletonState() {
	tables := map[string]map[string]string{
		"functions.ExprBridge": {
			"programCache":    "compiled programs keyed by expression text; an entry is reused only for the same env type",
			"preprocessCache": "backtick/LIKE/IS NULL rewriting, a pure function of the expression text",
			"exprEnv":         "function wrappers by name, rebuilt from the registry",
		},
		"functions.FunctionRegistry": {
			"functions":  "the registry itself, mutated only by Register/Unregister",
			"categories": "index of the registry by type",
			"snapshot":   "copy-on-read cache of the registry, invalidated by Register/Unregister",
		},
	}
	var names []string
	for n := range tables {
		names = append(names, n)
	}
	sort.Strings(names)
	for _, n := range names {
		parts := strings.SplitN(n, ".", 2)
		T := a.Named(parts[0], parts[1])
		mf := a.mutatedFields(T)
		var fs []string
		for f := range mf {
			fs = append(fs, f)
		}
		sort.Strings(fs)
		for _, f := range fs {
			if why, ok := tables[n][f]; ok {
				a.Ok("singleton:"+n+"."+f, token.NoPos, "%s; mutated by %v", why, mf[f])
			} else if n == "functions.FunctionRegistry" && len(mf[f]) > 0 && subsetOf(mf[f], append(append([]string{}, mf["functions"]...), mf["categories"]...)) {
				// bookkeeping of the registry (a generation counter, an index): written only where the registry itself
				// is written, i.e. by the explicit Register/Unregister operations, never while rows are evaluated
				a.Ok("singleton:"+n+"."+f, token.NoPos, "written only by the functions that write the registry itself (%v): no evaluation changes it", mf[f])
			} else {
				a.Bad("singleton:"+n+"."+f, token.NoPos, "%s.%s is process-wide state mutated by %v and is not in the reviewed table: results of one evaluation can now depend on earlier rows or on another instance (history dependence)", n, f, mf[f])
			}
		}
	}
}

// ruleCallerMapNotHandedOut: a result row handed to the sinks, queued on the result channel or
// returned by EmitSync is read after the call returned (async sinks, a consumer of ToChannel, the
// caller of EmitSync): it must not be the caller's own row map, which the producer may reuse for the
// next row. Uses the taint of ruleCallerMap: no element of a delivered batch and no returned result
// has level "may be the caller's map itself".
func (a *A) ruleCallerMapNotHandedOut() int {
	if a.taint == nil {
		a.ruleCallerMap(map[string]string{})
	}
	t := a.taint
	n := 0
	S := a.Named("stream", "Stream")
	for _, name := range []string{"sendResultNonBlocking", "callSinksAsync"} {
		target := a.methodOf(S, name)
		for _, fn := range a.ModFuncs {
			for _, site := range callsTo(fn, target) {
				cc := callCommon(site)
				n++
				construct := fmt.Sprintf("%s->%s#not-the-callers-map", fname(fn), name)
				var bad ssa.Value
				// elements stored into the batch slice (literal or appended)
				seen := map[ssa.Value]bool{}
				var walk func(v ssa.Value, d int)
				walk = func(v ssa.Value, d int) {
					if v == nil || seen[v] || d > 8 {
						return
					}
					seen[v] = true
					switch x := v.(type) {
					case *ssa.Slice:
						if al, ok := x.X.(*ssa.Alloc); ok {
							for _, r := range *al.Referrers() {
								if ia, ok := r.(*ssa.IndexAddr); ok {
									for _, rr := range *ia.Referrers() {
										if st, ok := rr.(*ssa.Store); ok && st.Addr == ssa.Value(ia) && t.val[st.Val] >= tTop {
											bad = st.Val
										}
									}
								}
							}
							return
						}
						walk(x.X, d+1)
					case *ssa.Phi:
						for _, e := range x.Edges {
							walk(e, d+1)
						}
					case *ssa.Call:
						if ac, ok := isBuiltinCall(x, "append"); ok {
							walk(ac.Args[0], d+1)
							for _, e := range appendedElems(ac) {
								if t.val[e] >= tTop {
									bad = e
								}
							}
						}
					}
				}
				walk(cc.Args[1], 0)
				if bad != nil {
					a.Bad(construct, site.Pos(), "a row of the delivered batch may be the caller's own map (%s): a producer that reuses its map rewrites a result that was already delivered; flow: %s", TermOf(bad, nil).String(), t.path(bad))
				} else {
					a.Ok(construct, site.Pos(), "no element of the delivered batch is the caller's map itself")
				}
			}
		}
	}
	for _, s := range []struct{ rel, typ, m string }{{"", "Streamsql", "EmitSync"}, {"stream", "Stream", "ProcessSync"}} {
		fn := a.Method(s.rel, s.typ, s.m)
		n++
		construct := fname(fn) + "#returns-not-the-callers-map"
		var bad ssa.Value
		for _, b := range fn.Blocks {
			if ret, ok := b.Instrs[len(b.Instrs)-1].(*ssa.Return); ok && len(ret.Results) > 0 {
				for _, l := range phiLeaves(ret.Results[0]) {
					if t.val[l] >= tTop || t.val[ret.Results[0]] >= tTop {
						bad = l
					}
				}
			}
		}
		if bad != nil {
			a.Bad(construct, fn.Pos(), "the returned result may be the caller's own map; flow: %s", t.path(bad))
		} else {
			a.Ok(construct, fn.Pos(), "the returned result is never the caller's map itself")
		}
	}
	return n
}
