package main

import (
	"fmt"
	"go/constant"
	"go/token"
	"go/types"
	"sort"
	"strings"

	"golang.org/x/tools/go/ssa"
)

func init() {
	register(&Prop{
		ID:         "C16",
		Decided:    "(1) the table key encoder is uniquely decodable for composite keys, separates strings from numbers by type tags, and normalises every Go numeric kind to one tag (keyenc); (2) MemoryTableSource.index is accessed only under its RWMutex (writes exclusively), tableStore.sources under its mutex; (3) enrichJoin writes only the fresh working copy (ownmap, shared with C20); (4) the JoinType literals written by parseJoin are exactly the ones enrichJoin distinguishes, the drop return is reachable only on the not-matched, not-LEFT arm, and a matched row is always attached; (4b) the table alias is defaulted to the table name before it is used to strip qualifiers from the ON columns; (5) the lookup key is built from OnPairs in order (StreamField), the same order JoinKeyFields reports for the index (TableField). Also: every use of a table source in package stream (TableSource.Lookup, MemoryTableSource.Upsert/Delete) takes its receiver from tableStore.get in the same activation, never from a field, package variable, atomic box or map that remembers a source across rows (flow/table-source-resolved-per-use). Also: in enrichJoin's loop over the JOINs no branch condition and no value written into the working row derives from a value carried over from the previous iteration (flow/join-result-per-iteration): a JOIN whose lookup is skipped cannot re-use the previous table's match. Also: in enrichJoin no column of the stream row is written into the working row after an alias (FROM alias, table alias) was set (flow/alias-after-row-copy): a payload field named like an alias cannot replace the joined table row. Also: TableSource.Lookup is unreachable on a path on which a key component was found NULL (flow/null-key-never-looked-up): the engine, not each source, guarantees that a NULL key matches nothing.",
		NotDecided: "read-your-writes across goroutines beyond the lock clause, column projection under aliases, WHERE/GROUP BY over joined columns.",
		Run:        runC16,
	})
}

func runC16(a *A) {
	a.Rule("shape/on-operand-sides", 2, func() { a.ruleOnOperandSides() })
	a.Rule("keyenc/table", 2, func() {
		a.keyencRule("stream", "", "encodeKey", keyencOpts{TypeTags: true})
		a.numericKindsRule(a.Func("stream", "numericKeyFloat"))
	})
	a.Rule("locks/guarded-by", 2, func() {
		a.lockRules("stream", "MemoryTableSource")
		a.lockRules("stream", "tableStore")
	})
	a.Rule("flow/alias-after-row-copy", 1, func() {
		// the working row: the stream row's own columns first, then the aliases (FROM alias, table aliases) on top.
		// A row column written after an alias was set overwrites the alias whenever the payload has a field of that
		// name (a `meta` object in a row joined to table `meta`): alias.col would read the payload, not the table.
		fn := a.Method("stream", "Stream", "enrichJoin")
		var aliasSets, rowCopies []ssa.Instruction
		allInstrs(fn, func(in ssa.Instruction) {
			mu, ok := in.(*ssa.MapUpdate)
			if !ok {
				return
			}
			// key taken from ranging over the row parameter
			if ex, isEx := mu.Key.(*ssa.Extract); isEx {
				if nx, isNx := ex.Tuple.(*ssa.Next); isNx {
					if rg, isRg := nx.Iter.(*ssa.Range); isRg {
						if _, isParam := rg.X.(*ssa.Parameter); isParam {
							rowCopies = append(rowCopies, in)
							return
						}
					}
				}
			}
			if strings.Contains(TermOf(mu.Key, nil).String(), "Alias") {
				aliasSets = append(aliasSets, in)
			}
		})
		if len(aliasSets) == 0 || len(rowCopies) == 0 {
			a.Und(fname(fn)+"#alias-after-row-copy", fn.Pos(), "the copy of the row's columns (%d) or the alias assignments (%d) were not recognised in enrichJoin", len(rowCopies), len(aliasSets))
			return
		}
		var bad ssa.Instruction
		for _, as := range aliasSets {
			if pathFromTo(as, func(y ssa.Instruction) bool {
				for _, rc := range rowCopies {
					if y == rc {
						return true
					}
				}
				return false
			}, nil, nil) {
				bad = as
			}
		}
		pos := fn.Pos()
		if bad != nil {
			pos = bad.Pos()
		}
		a.Check(bad == nil, fname(fn)+"#alias-after-row-copy", pos, "no column of the stream row is written into the working row after an alias was set",
			"a column of the stream row can be written into the working row after an alias was set: a payload field named like the alias replaces the joined table row")
	})
	a.Rule("ownmap/join-copy", 1, func() {
		fn := a.Method("stream", "Stream", "enrichJoin")
		n, bad := 0, ""
		allInstrs(fn, func(in ssa.Instruction) {
			if mu, ok := in.(*ssa.MapUpdate); ok {
				n++
				fresh := false
				for _, l := range phiLeaves(mu.Map) {
					if _, ok := l.(*ssa.MakeMap); ok {
						fresh = true
					} else {
						fresh = false
						bad = TermOf(l, nil).String()
						break
					}
				}
				if !fresh && bad == "" {
					bad = TermOf(mu.Map, nil).String()
				}
			}
		})
		a.Check(n > 0 && bad == "", fname(fn)+"#writes-copy-only", fn.Pos(), fmt.Sprintf("all %d map writes go to the map made in enrichJoin", n), "enrichJoin writes "+bad+", which is not the copy it made: the caller's row would receive the table columns")
	})
	a.Rule("tables/join-types", 3, func() {
		pj := a.Method("rsql", "Parser", "parseJoin")
		ej := a.Method("stream", "Stream", "enrichJoin")
		jtF := a.FieldOf(a.Named("types", "JoinConfig"), "JoinType")
		written := map[string]bool{}
		for _, st := range storesToField(pj, jtF) {
			for _, l := range phiLeaves(st.Val) {
				if k, ok := l.(*ssa.Const); ok && k.Value != nil && k.Value.Kind() == constant.String {
					if constant.StringVal(k.Value) == "" {
						continue // the zero value of a variable that holds the kind until it is known: not a join kind
					}
					written[constant.StringVal(k.Value)] = true
				} else {
					// a computed kind (the upper-cased keyword itself): the literals it was found equal to on the
					// paths that store it
					vals, closed := stringValuesOnPaths(pj, st, l)
					if closed {
						for _, v := range vals {
							written[v] = true
						}
					} else {
						written["<dynamic:"+TermOf(l, nil).String()+">"] = true
					}
				}
			}
		}
		tested := map[string]bool{}
		allInstrs(ej, func(in ssa.Instruction) {
			if bo, ok := in.(*ssa.BinOp); ok && (bo.Op == token.EQL || bo.Op == token.NEQ) {
				if t := TermOf(bo.X, nil); t.Kind == "field" && t.Field == jtF {
					if k, ok := bo.Y.(*ssa.Const); ok && k.Value != nil {
						tested[constant.StringVal(k.Value)] = true
					}
				}
			}
		})
		ws, ts := sortedKeys(written), sortedKeys(tested)
		// every non-default literal the parser writes must be tested; every tested literal must be writable
		okT := true
		for t := range tested {
			if !written[t] {
				okT = false
			}
		}
		okW := true
		for w := range written {
			if w != "INNER" && !tested[w] {
				okW = false
			}
		}
		a.Check(okT && okW && len(written) > 0, "JoinType:parser-vs-runtime", pj.Pos(), fmt.Sprintf("parser writes {%s}; enrichJoin distinguishes {%s} (INNER is the default arm)", strings.Join(ws, ","), strings.Join(ts, ",")),
			fmt.Sprintf("parser writes JoinType {%s} but enrichJoin tests {%s}: a join kind would silently behave as another", strings.Join(ws, ","), strings.Join(ts, ",")))
		// drop only on not matched and not LEFT; matched rows attached
		var matched ssa.Value
		containsLookup := func(f *ssa.Function) bool {
			found := false
			for _, h := range append([]*ssa.Function{f}, a.helpersOf(f)...) {
				allInstrs(h, func(x ssa.Instruction) {
					if c, ok := x.(*ssa.Call); ok && c.Call.IsInvoke() && c.Call.Method.Name() == "Lookup" {
						found = true
					}
				})
			}
			return found
		}
		allInstrs(ej, func(in ssa.Instruction) {
			if ex, ok := in.(*ssa.Extract); ok && ex.Index == 1 && isBool(ex.Type()) {
				if c, ok := ex.Tuple.(*ssa.Call); ok {
					if c.Call.IsInvoke() && c.Call.Method.Name() == "Lookup" {
						matched = ex
					} else if sc := c.Call.StaticCallee(); sc != nil && sc.Pkg == ej.Pkg && sc.Blocks != nil && containsLookup(sc) {
						matched = ex // a helper that performs the lookup and hands back (row, matched)
					}
				}
			}
		})
		if matched == nil {
			a.Und(fname(ej)+"#drop-arm", ej.Pos(), "no Lookup call found")
			return
		}
		for _, cs := range []struct {
			m, left bool
			want    Tri
			what    string
		}{{true, false, T, "a matched row is kept (INNER)"}, {true, true, T, "a matched row is kept (LEFT)"}, {false, true, T, "LEFT JOIN keeps an unmatched row"}, {false, false, F, "INNER JOIN drops an unmatched row"}} {
			env := &Env{a: a, Rank: map[string]int{}, Flags: map[string]bool{}, Assume: func(t *Term, v ssa.Value) Tri {
				if v == matched {
					return tri(cs.m)
				}
				// a NULL/missing key component skips the lookup (NULL equals nothing): "matched" presupposes
				// that the lookup ran, i.e. the boolean flag collected over the key components is false
				if ph, ok := v.(*ssa.Phi); ok && cs.m && isBoolFlagPhi(ph) {
					return F
				}
				if bo, ok := v.(*ssa.BinOp); ok && cs.m && (bo.Op == token.EQL || bo.Op == token.NEQ) && isNilConst(bo.Y) {
					if _, isIface := bo.X.Type().Underlying().(*types.Interface); isIface {
						return tri(bo.Op == token.NEQ) // no key component is NULL
					}
				}
				if bo, ok := v.(*ssa.BinOp); ok && (bo.Op == token.EQL || bo.Op == token.NEQ) {
					if tt := TermOf(bo.X, nil); tt.Kind == "field" && tt.Field == jtF {
						return tri(cs.left == (bo.Op == token.EQL))
					}
				}
				if ex, ok := v.(*ssa.Extract); ok && ex.Index == 1 {
					if c, ok := ex.Tuple.(*ssa.Call); ok && c.Call.StaticCallee() != nil && c.Call.StaticCallee().Name() == "get" {
						return T // table registered
					}
				}
				return U
			}}
			w := NewWalker(env, nil)
			w.RetIdx = 1
			w.Visits = 2
			bad := ""
			sawReturnAfterLookup := false
			for _, o := range w.Run(ej.Blocks[0], nil) {
				if o.Ended != "return" || o.Err {
					continue // an error return is not a join verdict
				}
				if o.Ret == U {
					bad = "keep is not a constant on some path"
				}
				// paths that never reach a join (no JoinConfigs / zero iterations) return keep=true: fine for want=T;
				// for the drop case at least one path must return false and none of the paths through the loop may return true
				if cs.want == F && o.Ret == F {
					sawReturnAfterLookup = true
				}
				if cs.want == T && o.Ret == F {
					bad = "a path returns keep=false"
				}
			}
			if cs.want == F && !sawReturnAfterLookup {
				bad = "no path drops the row"
			}
			a.Check(bad == "", fmt.Sprintf("%s#keep[matched=%v,left=%v]", fname(ej), cs.m, cs.left), ej.Pos(), cs.what, cs.what+" — violated: "+bad)
		}
	})
	a.Rule("flow/null-key-never-looked-up", 1, func() { a.ruleNullKeyNeverLookedUp() })
	a.Rule("flow/alias-default-before-use", 1, func() { a.ruleAliasDefaultBeforeUse() })
	a.Rule("flow/table-source-resolved-per-use", 2, func() { a.ruleTableSourceResolvedPerUse() })
	a.Rule("flow/join-result-per-iteration", 4, func() { a.ruleJoinResultPerIteration() })
	a.Rule("flow/join-parse-error-fatal", 1, func() { a.ruleJoinParseErrorFatal() })
	a.Rule("shape/key-order", 2, func() {
		ej := a.Method("stream", "Stream", "enrichJoin")
		jk := a.Method("stream", "Stream", "JoinKeyFields")
		// in both, element i of the built slice is derived from OnPairs[i] (same loop index)
		for _, inst := range []struct {
			fn    *ssa.Function
			field string
		}{{ej, "StreamField"}, {jk, "TableField"}} {
			ok := false
			// the key is built in the function itself or in helpers it calls (two levels)
			hosts := []*ssa.Function{inst.fn}
			for _, h := range a.helpersOf(inst.fn) {
				hosts = append(hosts, h)
				hosts = append(hosts, a.helpersOf(h)...)
			}
			isPairs := func(v ssa.Value) bool {
				if isFieldOf(TermOf(v, nil), "types.JoinConfig", "OnPairs") {
					return true
				}
				if sl, ok := v.Type().Underlying().(*types.Slice); ok {
					return isNamedType(sl.Elem(), modPath+"/types", "JoinOnPair")
				}
				return false
			}
			for _, host := range hosts {
				for _, l := range rangeLoops(host) {
					if l.X == nil || !isPairs(l.X) {
						continue
					}
					// `keys = append(keys, p.<field>)` once in every iteration is positional as well
					var aps []*ssa.Call
					for b := range l.Blocks {
						for _, in := range b.Instrs {
							if c, isC := in.(*ssa.Call); isC {
								if _, isAp := isBuiltinCall(c, "append"); isAp {
									aps = append(aps, c)
								}
							}
						}
					}
					for _, ap := range aps {
						cc, _ := isBuiltinCall(ap, "append")
						fieldOK := false
						for _, e := range appendedElems(cc) {
							if strings.Contains(TermOf(e, nil).String(), "[]."+inst.field) {
								fieldOK = true
							}
						}
						everyIter := true
						for _, p := range l.Header.Preds {
							if l.Blocks[p] && !(ap.Block() == p || ap.Block().Dominates(p)) {
								everyIter = false
							}
						}
						if fieldOK && everyIter {
							ok = true
						}
					}
					// a store key[i] = f(p.<field>) with the loop's index
					for b := range l.Blocks {
						for _, in := range b.Instrs {
							st, isSt := in.(*ssa.Store)
							if !isSt {
								continue
							}
							ia, isIA := st.Addr.(*ssa.IndexAddr)
							if !isIA {
								continue
							}
							idxIsLoop := false
							if bo, isB := ia.Index.(*ssa.BinOp); isB && bo.Block() == l.Header {
								idxIsLoop = true
							}
							if l.Index != nil && ia.Index == l.Index {
								idxIsLoop = true
							}
							if idxIsLoop && strings.Contains(TermOf(st.Val, nil).String(), "[]."+inst.field) {
								ok = true
							}
						}
					}
				}
			}
			a.Check(ok, fname(inst.fn)+"#positional", inst.fn.Pos(), "component i of the key comes from OnPairs[i]."+inst.field,
				"the key built in "+fname(inst.fn)+" is not positional over OnPairs (component i from OnPairs[i]."+inst.field+"): stream-side and table-side key orders could differ")
		}
	})
}

func sortedKeys(m map[string]bool) []string {
	var out []string
	for k := range m {
		out = append(out, k)
	}
	sort.Strings(out)
	return out
}

// ruleAliasDefaultBeforeUse: in parseJoin the defaulting of the table alias (alias = table name when
// none is written) happens before the alias is used to strip qualifiers from the ON columns.
func (a *A) ruleAliasDefaultBeforeUse() {
	fn := a.Method("rsql", "Parser", "parseJoin")
	jcT := a.Named("types", "JoinConfig")
	aliasF, tableF := a.FieldOf(jcT, "Alias"), a.FieldOf(jcT, "Table")
	// the defaulting store: jc.Alias = jc.Table
	var def *ssa.Store
	defAfterMerge := false
	for _, st := range storesToField(fn, aliasF) {
		if t := TermOf(st.Val, nil); t.Kind == "field" && t.Field == tableF {
			def = st
		}
		// or the alias settled in a local first (`if alias == "" { alias = jc.Table }; jc.Alias = alias`): one store
		// of a value that is the table name on the way that found no alias
		if _, isPhi := st.Val.(*ssa.Phi); isPhi && def == nil {
			// (the table name itself, or the very value that is stored as the table name of the same config)
			tableVal := ""
			if fa, ok := st.Addr.(*ssa.FieldAddr); ok {
				for _, ts := range storesToField(fn, tableF) {
					if tfa, ok := ts.Addr.(*ssa.FieldAddr); ok && tfa.X == fa.X {
						tableVal = TermOf(ts.Val, nil).String()
					}
				}
			}
			for _, l := range phiLeaves(st.Val) {
				if t := TermOf(l, nil); (t.Kind == "field" && t.Field == tableF) || (tableVal != "" && t.String() == tableVal) {
					def, defAfterMerge = st, true
				}
			}
		}
	}
	construct := fname(fn) + "#alias-default-before-use"
	if def == nil {
		a.Bad(construct, fn.Pos(), "no defaulting of JoinConfig.Alias to the table name found: a JOIN without alias has no namespace for its columns")
		return
	}
	// the merge point after the defaulting if: the block both arms reach = successor of def's block
	merge := def.Block()
	if len(merge.Succs) == 1 {
		merge = merge.Succs[0]
	}
	n := 0
	okAll := true
	var badPos token.Pos
	allInstrs(fn, func(in ssa.Instruction) {
		c, ok := in.(*ssa.Call)
		if !ok || c.Call.StaticCallee() == nil || !a.fnInModule(c.Call.StaticCallee()) {
			return
		}
		for i, arg := range c.Call.Args {
			use := false
			if t := TermOf(arg, nil); t.Kind == "field" && t.Field == aliasF {
				use = true
			}
			// the whole config handed to a helper that reads its Alias
			if fa, ok := def.Addr.(*ssa.FieldAddr); ok && arg == fa.X && i < len(c.Call.StaticCallee().Params) {
				prm := c.Call.StaticCallee().Params[i]
				allInstrs(c.Call.StaticCallee(), func(y ssa.Instruction) {
					if f2, ok := y.(*ssa.FieldAddr); ok && f2.X == ssa.Value(prm) && fieldVarOf(f2) == aliasF {
						use = true
					}
				})
			}
			if use {
				n++
				if defAfterMerge {
					if !dominatesInstr(def, c) {
						okAll = false
						badPos = c.Pos()
					}
				} else if !(merge.Dominates(c.Block()) || merge == c.Block()) {
					// path form: is the use reachable without the alias having been settled - i.e. without
					// passing the `Alias == ""` test that guards the default (either arm settles it)? Paths
					// that fail with an error before the test return before the use.
					var settle ssa.Instruction
					for _, g := range guardsOf(def.Block()) {
						if bo, ok := g.Cond.(*ssa.BinOp); ok && (bo.Op == token.EQL || bo.Op == token.NEQ) {
							if t := TermOf(bo.X, nil); t.Kind == "field" && t.Field == aliasF {
								settle = g.If
							}
						}
					}
					if settle == nil || explorePaths(fn, c, func(ssa.Value) Tri { return U }, func(in ssa.Instruction) bool { return in == settle }, nil) {
						okAll = false
						badPos = c.Pos()
					}
				}
			}
		}
	})
	if n == 0 {
		a.Und(construct, fn.Pos(), "the alias is not passed to any helper in parseJoin")
		return
	}
	a.Check(okAll, construct, def.Pos(), fmt.Sprintf("the alias default is applied before all %d uses of the alias in the ON clause", n),
		"the table alias is used at "+a.pos(badPos)+" before it has been defaulted to the table name: in `JOIN meta ON k = meta.k` the table-side column keeps its qualifier, the index key never matches and every row joins the NULL key")
}

// ruleOnOperandSides: `ON m.id = s.k` and `ON s.k = m.id` are the same predicate; which operand is the
// stream column and which the table column is told by the alias it carries. The parser must therefore
// not assign the sides by position: the text stored as JoinOnPair.StreamField (and TableField) has to
// be able to come from either operand of the '='.
func (a *A) ruleOnOperandSides() {
	fn := a.Method("rsql", "Parser", "parseJoin")
	read := a.Method("rsql", "Parser", "readJoinedFieldName")
	pair := a.Named("types", "JoinOnPair")
	n := 0
	// the ON loop is in parseJoin or in a Parser method it calls (one level)
	hosts := append([]*ssa.Function{fn}, a.helpersOf(fn)...)
	for _, fld := range []string{"StreamField", "TableField"} {
		fv := a.FieldOf(pair, fld)
		var stores []*ssa.Store
		for _, h := range hosts {
			stores = append(stores, storesToField(h, fv)...)
		}
		for _, st := range stores {
			n++
			// operand calls the stored text can come from
			calls := map[*ssa.Call]bool{}
			seen := map[ssa.Value]bool{}
			var walk func(v ssa.Value, d int)
			walk = func(v ssa.Value, d int) {
				if v == nil || seen[v] || d > 10 {
					return
				}
				seen[v] = true
				switch x := v.(type) {
				case *ssa.Phi:
					for _, e := range x.Edges {
						walk(e, d+1)
					}
				case *ssa.Extract:
					if c, ok := x.Tuple.(*ssa.Call); ok && c.Call.StaticCallee() == read {
						calls[c] = true
					}
				case *ssa.Call:
					if c := x.Call.StaticCallee(); c != nil && a.fnInModule(c) {
						for _, arg := range x.Call.Args {
							if isStringType(arg.Type()) {
								walk(arg, d+1)
							}
						}
					}
				}
			}
			walk(st.Val, 0)
			a.Check(len(calls) >= 2, fname(fn)+"#"+fld+"-by-alias", st.Pos(),
				fld+" can come from either operand of '=' (the side is chosen by alias)",
				fld+" always comes from the operand in one position of '=': `ON m.id = s.k` indexes the table by the stream column and looks the stream row up by the table column, so every row is enriched with an arbitrary table row")
		}
	}
	if n == 0 {
		a.Und(fname(fn)+"#on-operand-sides", fn.Pos(), "no store to JoinOnPair.StreamField/TableField found")
	}
}

// isBoolFlagPhi: a boolean phi (transitively) fed only by the constants true/false.
func isBoolFlagPhi(ph *ssa.Phi) bool {
	if bt, ok := ph.Type().Underlying().(*types.Basic); !ok || bt.Kind() != types.Bool {
		return false
	}
	for _, l := range phiLeaves(ph) {
		if k, ok := l.(*ssa.Const); !ok || k.Value == nil {
			return false
		}
	}
	return true
}

// ruleTableSourceResolvedPerUse: "a row processed after UpsertTable/Delete/Register returned sees the
// new table contents" needs every use of a table to go through the one place the registrations are
// kept. Each use of a table source in package stream (TableSource.Lookup, MemoryTableSource.Upsert /
// Delete reached from the engine) takes its receiver from (*tableStore).get in the same activation —
// through locals, fresh slices, helper results and parameters, never from a struct field, a package
// variable, an atomic box or any other place that remembers a source across rows.
func (a *A) ruleTableSourceResolvedPerUse() int {
	get := a.Method("stream", "tableStore", "get")
	mts := a.Named("stream", "MemoryTableSource")
	isMts := func(t types.Type) bool {
		if p, ok := types.Unalias(t).(*types.Pointer); ok {
			t = p.Elem()
		}
		return types.Identical(types.Unalias(t), mts)
	}
	n := 0
	for _, fn := range a.ModFuncs {
		if fn.Pkg != a.Pkg("stream") || fn.Blocks == nil {
			continue
		}
		if r := fn.Signature.Recv(); r != nil && isMts(r.Type()) {
			continue // the source's own methods
		}
		allInstrs(fn, func(in ssa.Instruction) {
			c, ok := in.(*ssa.Call)
			if !ok {
				return
			}
			var recv ssa.Value
			var what string
			if c.Call.IsInvoke() {
				if nt, ok := c.Call.Value.Type().(*types.Named); ok && nt.Obj().Name() == "TableSource" && nt.Obj().Pkg() == fn.Pkg.Pkg && c.Call.Method.Name() == "Lookup" {
					recv, what = c.Call.Value, "TableSource.Lookup"
				}
			} else if sc := c.Call.StaticCallee(); sc != nil && sc.Signature.Recv() != nil && isMts(sc.Signature.Recv().Type()) &&
				(sc.Name() == "Upsert" || sc.Name() == "Delete" || sc.Name() == "Lookup") {
				recv, what = c.Call.Args[0], "MemoryTableSource."+sc.Name()
			}
			if recv == nil {
				return
			}
			n++
			var bad []string
			seen := map[ssa.Value]bool{}
			var walk func(v ssa.Value, f *ssa.Function, d int)
			storesInto := func(base ssa.Value, f *ssa.Function, d int) {
				found := false
				allInstrs(f, func(in ssa.Instruction) {
					st, ok := in.(*ssa.Store)
					if !ok {
						return
					}
					addr := st.Addr
					if ia, ok := addr.(*ssa.IndexAddr); ok {
						addr = ia.X
					}
					for _, l := range phiLeaves(addr) {
						if sl, ok := l.(*ssa.Slice); ok {
							l = sl.X
						}
						if l == base {
							found = true
							walk(st.Val, f, d+1)
						}
					}
				})
				if !found {
					bad = append(bad, "storage without a store at "+a.pos(base.Pos()))
				}
			}
			walk = func(v ssa.Value, f *ssa.Function, d int) {
				if v == nil || seen[v] {
					return
				}
				seen[v] = true
				if d > 12 {
					bad = append(bad, "trace depth exceeded")
					return
				}
				switch x := v.(type) {
				case *ssa.Const:
				case *ssa.Phi:
					for _, e := range x.Edges {
						walk(e, f, d+1)
					}
				case *ssa.MakeInterface:
					walk(x.X, f, d+1)
				case *ssa.ChangeInterface:
					walk(x.X, f, d+1)
				case *ssa.ChangeType:
					walk(x.X, f, d+1)
				case *ssa.TypeAssert:
					walk(x.X, f, d+1)
				case *ssa.Extract:
					if cc, ok := x.Tuple.(*ssa.Call); ok {
						if cc.Call.StaticCallee() == get {
							return
						}
						a.calleeReturns(cc, x.Index, func(rv ssa.Value, rf *ssa.Function) { walk(rv, rf, d+1) }, func(why string) { bad = append(bad, why) })
						return
					}
					walk(x.Tuple, f, d+1)
				case *ssa.Call:
					if x.Call.StaticCallee() == get {
						return
					}
					a.calleeReturns(x, 0, func(rv ssa.Value, rf *ssa.Function) { walk(rv, rf, d+1) }, func(why string) { bad = append(bad, why) })
				case *ssa.Parameter:
					idx := -1
					for i, p := range f.Params {
						if p == x {
							idx = i
						}
					}
					node := a.CG().Nodes[f]
					if node == nil || len(node.In) == 0 || idx < 0 {
						bad = append(bad, "parameter "+x.Name()+" of "+fname(f)+" (no resolved caller)")
						return
					}
					for _, e := range node.In {
						if cc := e.Site.Common(); cc != nil && e.Caller.Func != nil {
							args := cc.Args
							if cc.IsInvoke() {
								args = append([]ssa.Value{cc.Value}, args...)
							}
							if idx < len(args) {
								if !a.fnInModule(e.Caller.Func) {
									bad = append(bad, "argument from "+fname(e.Caller.Func))
									continue
								}
								walk(args[idx], e.Caller.Func, d+1)
							}
						}
					}
				case *ssa.UnOp:
					if x.Op != token.MUL {
						bad = append(bad, x.String())
						return
					}
					switch ad := x.X.(type) {
					case *ssa.IndexAddr:
						for _, l := range phiLeaves(ad.X) {
							if sl, ok := l.(*ssa.Slice); ok {
								l = sl.X
							}
							switch l.(type) {
							case *ssa.MakeSlice, *ssa.Alloc:
								storesInto(l, f, d)
							default:
								walk(l, f, d+1)
							}
						}
					case *ssa.Alloc:
						storesInto(ad, f, d)
					case *ssa.FieldAddr:
						bad = append(bad, "field "+TermOf(x, nil).String()+" read at "+a.pos(x.Pos()))
					case *ssa.Global:
						bad = append(bad, "package variable "+ad.Name())
					default:
						bad = append(bad, "load "+x.String()+" at "+a.pos(x.Pos()))
					}
				case *ssa.MakeSlice:
					storesInto(x, x.Parent(), d)
				case *ssa.Slice:
					walk(x.X, f, d+1)
				case *ssa.Lookup:
					bad = append(bad, "map element "+TermOf(x.X, nil).String()+" read at "+a.pos(x.Pos()))
				default:
					bad = append(bad, fmt.Sprintf("%T %s at %s", v, v.String(), a.pos(v.Pos())))
				}
			}
			walk(recv, fn, 0)
			sort.Strings(bad)
			a.Check(len(bad) == 0, fmt.Sprintf("%s->%s#source-from-store", fname(fn), what), c.Pos(),
				"the table source used here is the result of tableStore.get in the same activation",
				"the table source used here can come from "+strings.Join(bad, "; ")+" instead of tableStore.get: a source remembered across rows keeps answering after the table was registered again under the same name")
		})
	}
	return n
}

// ruleJoinResultPerIteration: a query may JOIN several tables; enrichJoin resolves them one after
// the other in a loop. What one iteration looked up (the matched flag, the table row) belongs to that
// iteration: no branch condition and no value written into the working row inside the loop derives
// from a value carried over from the previous iteration (a phi at the loop header other than the
// range index). Otherwise a JOIN whose lookup is skipped (NULL key) re-uses the previous table's
// match: an INNER JOIN keeps the row and the earlier table's columns appear under the later alias.
func (a *A) ruleJoinResultPerIteration() int {
	ej := a.Method("stream", "Stream", "enrichJoin")
	jcs := a.FieldOf(a.Named("types", "Config"), "JoinConfigs")
	n := 0
	for _, l := range rangeLoops(ej) {
		if l.X == nil {
			continue
		}
		if t := TermOf(l.X, nil); t.Kind != "field" || t.Field != jcs {
			continue
		}
		// the natural loop
		inLoop := map[*ssa.BasicBlock]bool{}
		for b := range l.Blocks {
			if reachesAvoiding(b, l.Header, nil) || b == l.Header {
				inLoop[b] = true
			}
		}
		isIndexPhi := func(p *ssa.Phi) bool { return isIntType(p.Type()) }
		for b := range inLoop {
			for _, in := range b.Instrs {
				var vals []ssa.Value
				what := ""
				switch x := in.(type) {
				case *ssa.If:
					vals, what = []ssa.Value{x.Cond}, "a branch condition"
				case *ssa.MapUpdate:
					vals, what = []ssa.Value{x.Value}, "a value written into the working row"
				default:
					continue
				}
				for _, v := range vals {
					n++
					phi := carriedBy(v, l.Header)
					if phi != nil && isIndexPhi(phi) {
						phi = nil
					}
					name := ""
					if phi != nil {
						name = phi.Comment
					}
					kind := "branch"
					if _, isMU := in.(*ssa.MapUpdate); isMU {
						kind = "value"
					}
					a.Check(phi == nil, fmt.Sprintf("%s#per-iteration-%s", fname(ej), kind), in.Pos(),
						what+" of the JOIN loop is computed from this iteration's lookup",
						what+" of the JOIN loop derives from "+name+", a value carried over from the previous JOIN of the same row: when this JOIN's lookup is skipped (NULL key) the previous table's match decides, and its row is attached under this table's alias")
				}
			}
		}
	}
	if n == 0 {
		a.anchorFail("no loop over Config.JoinConfigs found in enrichJoin")
	}
	return n
}

// ruleJoinParseErrorFatal: the parser "recovers" from errors of most clauses (it records them and
// goes on). For the JOIN clause that is not an option: a query whose JOIN could not be parsed would be
// executed without it — no enrichment, an INNER JOIN that drops nothing — and Execute would report
// success. In Parser.Parse, once parseJoin has returned an error no further clause parser is reached:
// every path from there leads to the return of the error.
func (a *A) ruleJoinParseErrorFatal() int {
	parse := a.Method("rsql", "Parser", "Parse")
	pj := a.Method("rsql", "Parser", "parseJoin")
	n := 0
	for _, c := range callsTo(parse, pj) {
		call, ok := c.(*ssa.Call)
		if !ok {
			continue
		}
		n++
		// the branch on err != nil
		var errBranch *ssa.BasicBlock
		for _, r := range *call.Referrers() {
			bo, ok := r.(*ssa.BinOp)
			if !ok || !isNilConst(bo.Y) || bo.X != ssa.Value(call) {
				continue
			}
			for _, rr := range *bo.Referrers() {
				if iff, ok := rr.(*ssa.If); ok {
					if bo.Op == token.NEQ {
						errBranch = iff.Block().Succs[0]
					} else if bo.Op == token.EQL {
						errBranch = iff.Block().Succs[1]
					}
				}
			}
		}
		construct := fname(parse) + "#join-error-fatal"
		if errBranch == nil {
			a.Und(construct, call.Pos(), "the error result of parseJoin is not tested")
			continue
		}
		hit := reachableFrom(errBranch, 0, func(x ssa.Instruction) bool {
			sc := staticCallee(x)
			return sc != nil && sc.Signature.Recv() != nil && isNamedType(sc.Signature.Recv().Type(), modPath+"/rsql", "Parser") && strings.HasPrefix(sc.Name(), "parse")
		}, nil)
		pos := call.Pos()
		if hit != nil {
			pos = hit.Pos()
		}
		a.Check(hit == nil, construct, pos, "after parseJoin failed no further clause is parsed: the error is returned",
			"after parseJoin returned an error the parser can go on with the other clauses (error recovery): the statement is accepted without its JOIN, rows are not enriched and an INNER JOIN drops nothing, while Execute reports success")
	}
	if n == 0 {
		a.anchorFail("Parser.Parse does not call parseJoin")
	}
	return n
}

// helpersOf: the same-package functions fn calls synchronously (one level), with a body.
func (a *A) helpersOf(fn *ssa.Function) []*ssa.Function {
	var out []*ssa.Function
	seen := map[*ssa.Function]bool{fn: true}
	allInstrs(fn, func(in ssa.Instruction) {
		if _, isGo := in.(*ssa.Go); isGo {
			return
		}
		if h := staticCallee(in); h != nil && !seen[h] && h.Blocks != nil && h.Pkg == fn.Pkg {
			seen[h] = true
			out = append(out, h)
		}
	})
	return out
}

// ruleNullKeyNeverLookedUp: NULL = NULL is not true: a stream row whose ON key has a NULL or missing
// component matches no table row, whatever the table source is (TableSource is an interface users
// implement, and a source indexes rows with a NULL key column under some key of its own). The engine
// must therefore not ask the source at all: in enrichJoin (and the package helpers it calls) every
// TableSource.Lookup is unreachable on a path on which a key component was found nil. A rule applied
// inside one source, on the encoded key, covers neither composite keys whose encoding frames the
// component nor other sources.
func (a *A) ruleNullKeyNeverLookedUp() int {
	ej := a.Method("stream", "Stream", "enrichJoin")
	sfv := a.FuncOpt("stream", "streamFieldValue")
	n := 0
	for _, h := range append([]*ssa.Function{ej}, a.helpersOf(ej)...) {
		var lookups []ssa.Instruction
		allInstrs(h, func(in ssa.Instruction) {
			if c, ok := in.(*ssa.Call); ok && c.Call.IsInvoke() && c.Call.Method.Name() == "Lookup" {
				lookups = append(lookups, in)
			}
		})
		if len(lookups) == 0 {
			continue
		}
		// nil tests of key components: interface values compared with nil that come from the row
		// (streamFieldValue, a map lookup) or are read back from the key slice
		// (the test need not decide a branch at once: `nullKey = nullKey || v == nil` keeps its verdict in a
		// variable, and the path exploration carries it to the branch that uses it)
		var tests []*ssa.BinOp
		allInstrs(h, func(in ssa.Instruction) {
			bo, ok := in.(*ssa.BinOp)
			if !ok {
				return
			}
			x, _, isNT := nilTest(bo)
			if !isNT {
				return
			}
			if _, isIface := x.Type().Underlying().(*types.Interface); !isIface {
				return
			}
			fromRow := false
			for _, l := range phiLeaves(x) {
				switch y := l.(type) {
				case *ssa.Extract:
					if c, ok := y.Tuple.(*ssa.Call); ok && (sfv == nil || c.Call.StaticCallee() == sfv || c.Call.StaticCallee() != nil) {
						fromRow = true
					}
					if _, ok := y.Tuple.(*ssa.Lookup); ok {
						fromRow = true
					}
				case *ssa.UnOp:
					if _, ok := y.X.(*ssa.IndexAddr); ok {
						fromRow = true // key[i]
					}
				case *ssa.Lookup:
					fromRow = true
				}
			}
			if fromRow {
				tests = append(tests, bo)
			}
		})
		for _, lk := range lookups {
			lk := lk
			n++
			construct := fname(h) + "#lookup-only-with-complete-key"
			if len(tests) == 0 {
				a.Bad(construct, lk.Pos(), "the table source is asked without the key components having been tested for NULL: whether a NULL key matches is left to each source (the memory table indexes rows with a NULL key column too, so NULL would equal NULL for composite keys)")
				continue
			}
			bad := false
			// the key of one lookup is built afresh for every JOIN: a path that allocates the next key
			// has left the lookup the tested component belongs to
			newKey := map[ssa.Instruction]bool{}
			for _, l := range phiLeaves(lk.(*ssa.Call).Call.Args[0]) {
				if mi, ok := l.(*ssa.MakeInterface); ok {
					l = mi.X
				}
				if in, ok := l.(ssa.Instruction); ok {
					if _, isMS := l.(*ssa.MakeSlice); isMS {
						newKey[in] = true
					}
				}
			}
			for _, t := range tests {
				t := t
				_, nilWhenTrue, _ := nilTest(t)
				if pathFromTo(t, func(x ssa.Instruction) bool { return x == lk }, func(v ssa.Value) Tri {
					if v == ssa.Value(t) {
						return tri(nilWhenTrue) // this component is nil
					}
					return U
				}, func(x ssa.Instruction) bool { return newKey[x] }) {
					bad = true
				}
			}
			a.Check(!bad, construct, lk.Pos(), "Lookup is unreachable once a key component was found NULL",
				"TableSource.Lookup can be reached although a key component was found NULL: the row is matched against whatever the source keeps under that key, where SQL says a NULL key matches nothing")
		}
	}
	if n == 0 {
		a.anchorFail("no TableSource.Lookup call found in enrichJoin or its helpers")
	}
	return n
}


// stringValuesOnPaths: the string literals value leaf was found equal to (`leaf == "LEFT"` true, or `leaf != "LEFT"`
// false) on the feasible paths from fn's entry to the store st on which st stores leaf; closed reports that every
// such path had decided one.
func stringValuesOnPaths(fn *ssa.Function, st *ssa.Store, leaf ssa.Value) (vals []string, closed bool) {
	type cmp struct {
		bo *ssa.BinOp
		k  string
	}
	var cmps []cmp
	allInstrs(fn, func(in ssa.Instruction) {
		bo, ok := in.(*ssa.BinOp)
		if !ok || (bo.Op != token.EQL && bo.Op != token.NEQ) || bo.X != leaf {
			return
		}
		if k, ok := bo.Y.(*ssa.Const); ok && k.Value != nil && k.Value.Kind() == constant.String {
			cmps = append(cmps, cmp{bo, constant.StringVal(k.Value)})
		}
	})
	if len(cmps) == 0 {
		return nil, false
	}
	seen := map[string]bool{}
	closed = true
	hits := 0
	over := explorePaths(fn, st, func(ssa.Value) Tri { return U }, func(ssa.Instruction) bool { return false }, func(resolve func(ssa.Value) ssa.Value) {
		if resolve(st.Val) != leaf && st.Val != leaf {
			return
		}
		hits++
		found := false
		for _, c := range cmps {
			if k, ok := resolve(c.bo).(*ssa.Const); ok && k.Value != nil && k.Value.Kind() == constant.Bool {
				if constant.BoolVal(k.Value) == (c.bo.Op == token.EQL) {
					seen[c.k] = true
					found = true
				}
			}
		}
		if !found {
			closed = false
		}
	})
	if over || hits == 0 {
		return nil, false
	}
	return sortedKeys(seen), closed
}
