package main

import (
	"fmt"
	"go/constant"
	"go/token"
	"go/types"
	"regexp"
	"regexp/syntax"
	"sort"
	"strings"

	"golang.org/x/tools/go/ssa"
)

func init() {
	register(&Prop{
		ID:          "C12",
		Decided:     "(1) the operator alternation of the shortcut regexes equals the case sets of compareNum and compareStr, and every case denotes its relation under all orderings (NaN unordered); (2) fallback discipline: the shortcut answers (ok=true) only after a successful type test matching the literal's kind, a missing or NULL field yields ok=false, a compound falls back as a whole when any part does; (3) no lossy coercion: every conversion of a 64-bit (or platform-width) integer to float64 on the shortcut path is reachable only within +-2^53, and a numeric literal is accepted only within +-2^53 (the general engine compares integer kinds as integers); (4) a failing evaluation rejects the row: the bool assertion on the VM result is reached only when err==nil, the error arm returns false, the program is compiled AsBool; (5) every predicate kind of the property (WHERE, HAVING, OVER-WHEN, TRIGGER-WHEN) is compiled by condition.NewExprCondition. Also: the quoted literal of the string shortcut admits no backslash (the general engine unescapes literals). Also: the HAVING filters return nothing when their predicate fails to compile. Also: in toFloat64Fast and the helpers it delegates to, a 64-bit integer changes signedness (uint64 -> int64) only after a range test, so a wrapped value cannot pass the +-2^53 check.",
		NotDecided:  "equality of decisions for all values beyond the coercion clause (expr-lang's own semantics for mixed kinds and strings), parenthesised equivalents, NaN/Inf beyond the comparison tables.",
		Assumptions: []string{"expr-lang v1.17.8 compares two integer-kind operands as integers (runtime.Less/Equal: int(x) < int(y)) and an integer with a float as float64 — read in the module cache"},
		Run:         runC12,
	})
}

func regexOf(a *A, rel, global string) (string, token.Pos) {
	p := a.Pkg(rel)
	g, ok := p.Members[global].(*ssa.Global)
	if !ok {
		a.anchorFail("global %s.%s not found", rel, global)
	}
	var pat string
	var pos token.Pos
	init := p.Func("init")
	allInstrs(init, func(in ssa.Instruction) {
		st, ok := in.(*ssa.Store)
		if !ok || st.Addr != ssa.Value(g) {
			return
		}
		if c, ok := st.Val.(*ssa.Call); ok && len(c.Call.Args) == 1 {
			if k, ok := c.Call.Args[0].(*ssa.Const); ok && k.Value != nil && k.Value.Kind() == constant.String {
				pat = constant.StringVal(k.Value)
				pos = st.Pos()
			}
		}
	})
	if pat == "" {
		a.anchorFail("no constant regex initialiser for %s.%s", rel, global)
	}
	return pat, pos
}

// switchCases: string constants the parameter paramIdx of fn is compared with, in fn itself or in
// module functions it hands the parameter to (an operator table shared by several comparators).
func switchCases(fn *ssa.Function, paramIdx int) []string {
	set := map[string]bool{}
	seen := map[*ssa.Function]bool{}
	var rec func(f *ssa.Function, idx int, d int)
	rec = func(f *ssa.Function, idx int, d int) {
		if f == nil || f.Blocks == nil || seen[f] || d > 3 || idx >= len(f.Params) {
			return
		}
		seen[f] = true
		p := f.Params[idx]
		// the operator, or the operator after a canonicalising step (`if op == "=" { op = "==" }`): variables that
		// hold the parameter or a string literal on every way
		family := map[ssa.Value]bool{p: true}
		for changed := true; changed; {
			changed = false
			allInstrs(f, func(in ssa.Instruction) {
				ph, ok := in.(*ssa.Phi)
				if !ok || family[ph] || !isStringType(ph.Type()) {
					return
				}
				all, some := true, false
				for _, e := range ph.Edges {
					if k, isK := e.(*ssa.Const); isK && k.Value != nil && k.Value.Kind() == constant.String {
						continue
					}
					if family[e] {
						some = true
						continue
					}
					all = false
				}
				if all && some {
					family[ph] = true
					changed = true
				}
			})
		}
		allInstrs(f, func(in ssa.Instruction) {
			if bo, ok := in.(*ssa.BinOp); ok && bo.Op == token.EQL && family[bo.X] {
				if k, ok := bo.Y.(*ssa.Const); ok && k.Value != nil && k.Value.Kind() == constant.String {
					set[constant.StringVal(k.Value)] = true
				}
			}
			if c, ok := in.(*ssa.Call); ok {
				if cal := c.Call.StaticCallee(); cal != nil && ssaPkgOf(cal) == ssaPkgOf(f) {
					for j, arg := range c.Call.Args {
						if arg == ssa.Value(p) {
							rec(cal, j, d+1)
						}
					}
				}
			}
		})
	}
	rec(fn, paramIdx, 0)
	var out []string
	for s := range set {
		out = append(out, s)
	}
	sort.Strings(out)
	return out
}

func runC12(a *A) {
	a.Rule("tables/shortcut-operators", 2, func() {
		opGroup := regexp.MustCompile(`\((>=[^()]*)\)`)
		for _, inst := range []struct{ re, cmp string }{{"fastFieldOpNum", "compareNum"}, {"fastFieldOpStr", "compareStr"}} {
			pat, pos := regexOf(a, "condition", inst.re)
			m := opGroup.FindStringSubmatch(pat)
			if m == nil {
				a.Und("operators:"+inst.re, pos, "cannot find the operator alternation in %q", pat)
				continue
			}
			ops := strings.Split(m[1], "|")
			sort.Strings(ops)
			cases := switchCases(a.Func("condition", inst.cmp), 1)
			a.Check(strings.Join(ops, " ") == strings.Join(cases, " "), "operators:"+inst.re+"="+inst.cmp, pos,
				fmt.Sprintf("shortcut regex accepts {%s}, exactly the operators %s handles", strings.Join(ops, " "), inst.cmp),
				fmt.Sprintf("shortcut regex accepts {%s} but %s handles {%s}: an accepted operator without a case evaluates to false instead of falling back", strings.Join(ops, " "), inst.cmp, strings.Join(cases, " ")))
		}
	})
	a.Rule("flow/having-fails-closed", 2, func() { a.ruleHavingFailsClosed() })
	a.Rule("tables/null-safe-predicates", 2, func() { a.ruleNullSafePredicates() })
	a.Rule("tables/shortcut-literal-class", 1, func() {
		// The general engine unescapes a quoted literal, the shortcut compares the text between the quotes
		// as written. They agree only on literals without an escape: the character class of the literal in
		// the shortcut pattern must exclude the backslash (and the quote).
		pat, pos := regexOf(a, "condition", "fastFieldOpStr")
		re, err := syntax.Parse(pat, syntax.Perl)
		if err != nil {
			a.Und("literal-class:fastFieldOpStr", pos, "cannot parse %q: %v", pat, err)
			return
		}
		var classes []*syntax.Regexp
		var walk func(r *syntax.Regexp, quoted bool)
		walk = func(r *syntax.Regexp, quoted bool) {
			if r.Op == syntax.OpConcat {
				// capture groups that sit between two quote literals
				for i, sub := range r.Sub {
					q := i > 0 && i+1 < len(r.Sub) && isQuoteLit(r.Sub[i-1]) && isQuoteLit(r.Sub[i+1])
					walk(sub, q)
				}
				return
			}
			if quoted {
				var find func(x *syntax.Regexp)
				find = func(x *syntax.Regexp) {
					switch x.Op {
					case syntax.OpCharClass, syntax.OpAnyChar, syntax.OpAnyCharNotNL:
						classes = append(classes, x)
					}
					for _, s := range x.Sub {
						find(s)
					}
				}
				find(r)
				return
			}
			for _, sub := range r.Sub {
				walk(sub, false)
			}
		}
		walk(re, false)
		if len(classes) == 0 {
			a.Und("literal-class:fastFieldOpStr", pos, "no quoted literal class found in %q", pat)
			return
		}
		ok := true
		for _, c := range classes {
			if c.Op != syntax.OpCharClass {
				ok = false
				continue
			}
			for i := 0; i+1 < len(c.Rune); i += 2 {
				if c.Rune[i] <= '\\' && '\\' <= c.Rune[i+1] || c.Rune[i] <= '\'' && '\'' <= c.Rune[i+1] {
					ok = false
				}
			}
		}
		a.Check(ok, "literal-class:fastFieldOpStr", pos, "the shortcut's quoted literal admits neither a backslash nor a quote: it is the same text for both evaluators",
			"the shortcut's quoted literal admits a backslash: the general engine unescapes 'a\\\\b' to a\\b while the shortcut compares the raw text, so the two decide differently")
	})
	a.Rule("ordtab/compare-tables", 16, func() {
		rel := map[string]func(x, y int) bool{
			">": func(x, y int) bool { return x > y }, ">=": func(x, y int) bool { return x >= y },
			"<": func(x, y int) bool { return x < y }, "<=": func(x, y int) bool { return x <= y },
			"=": func(x, y int) bool { return x == y }, "==": func(x, y int) bool { return x == y },
			"!=": func(x, y int) bool { return x != y }, "<>": func(x, y int) bool { return x != y },
		}
		for _, name := range []string{"compareNum", "compareStr"} {
			fn := a.Func("condition", name)
			for _, op := range switchCases(fn, 1) {
				want, ok := rel[op]
				if !ok {
					a.Bad(name+"["+op+"]", fn.Pos(), "operator %q has a case in %s but no SQL meaning is known for it", op, name)
					continue
				}
				flags := []string{}
				if name == "compareNum" {
					flags = []string{"nan:a"}
				}
				opc := op
				a.OrdTable(name+"["+op+"]", fn.Pos(), fmt.Sprintf("case %q decides a %s b", op, op), OrdSpec{
					Roles: []string{"a", "b"}, Flags: flags,
					Expect: func(r map[string]int, f map[string]bool) (bool, bool) {
						if f["nan:a"] {
							return opc == "!=" || opc == "<>", true
						}
						return want(r["a"], r["b"]), true
					},
					Role: func(t *Term) string {
						if t.Kind == "param" && t.Idx == 0 {
							return "a"
						}
						if t.Kind == "param" && t.Idx == 2 {
							return "b"
						}
						return ""
					},
					Assume: func(t *Term, v ssa.Value) Tri {
						// the operator after a canonicalising step: on the path the variable stands for the
						// parameter (the case under test) or for the literal it was replaced by
						if t != nil && t.Kind == "bin" && t.Name == "==" && len(t.Args) == 2 && t.Args[1].Kind == "const" && t.Args[1].Const != nil && t.Args[1].Const.Kind() == constant.String {
							rhs := constant.StringVal(t.Args[1].Const)
							switch l := t.Args[0]; {
							case l.Kind == "param" && l.Idx == 1:
								return tri(rhs == opc)
							case l.Kind == "const" && l.Const != nil && l.Const.Kind() == constant.String:
								return tri(rhs == constant.StringVal(l.Const))
							}
						}
						if bo, ok := v.(*ssa.BinOp); ok && bo.Op == token.EQL && isStringType(bo.X.Type()) {
							if _, isParam := bo.X.(*ssa.Parameter); isParam {
								if k, ok := bo.Y.(*ssa.Const); ok && k.Value != nil && k.Value.Kind() == constant.String {
									return tri(constant.StringVal(k.Value) == opc)
								}
							}
						}
						return U
					},
					Eval: func(env *Env) (Tri, string) { return evalFuncRet(env, fn, nil) },
				})
			}
		}
	})
	a.Rule("flow/fallback-discipline", 6, func() { a.ruleFastFallback() })
	a.Rule("ordtab/lossless-coercion", 3, func() { a.ruleLossless() })
	a.Rule("flow/error-rejects", 3, func() {
		fn := a.Method("condition", "ExprCondition", "Evaluate")
		n := 0
		allInstrs(fn, func(in ssa.Instruction) {
			ta, ok := in.(*ssa.TypeAssert)
			if !ok || ta.CommaOk || !isBool(ta.AssertedType) {
				return
			}
			n++
			ok2 := guardedNil(ta.Block(), func(v ssa.Value) bool { return isErrorType(v.Type()) }, true)
			a.Check(ok2, fname(fn)+"#assert-after-err-check", in.Pos(), "result.(bool) is reached only when err == nil", "result.(bool) can be reached with err != nil (nil result): a failing predicate panics instead of rejecting the row")
		})
		if n == 0 {
			a.Ok(fname(fn)+"#assert-after-err-check", fn.Pos(), "no unchecked bool assertion on the VM result").Trivial = true
		}
		// error arm returns false: with the error of the evaluation not nil and no shortcut installed, every
		// return that some path reaches returns the constant false on that path
		assume := func(v ssa.Value) Tri {
			if x, nilWhenTrue, ok := nilTest(v); ok && isErrorType(x.Type()) {
				return tri(!nilWhenTrue) // the error is not nil
			}
			if bo, ok := v.(*ssa.BinOp); ok && (bo.Op == token.NEQ || bo.Op == token.EQL) {
				if t := TermOf(bo.X, nil); isFieldOf(t, "condition.ExprCondition", "fast") || isFieldOf(t, "condition.ExprCondition", "compound") {
					return tri(bo.Op == token.EQL) // no shortcut: general path
				}
			}
			return U
		}
		why := ""
		runs := 0
		allInstrs(fn, func(in ssa.Instruction) {
			c, ok := in.(*ssa.Call)
			if !ok {
				return
			}
			// the evaluation: a call that yields (any, error)
			res, isTuple := c.Type().(*types.Tuple)
			if !isTuple || res.Len() != 2 || !isErrorType(res.At(1).Type()) {
				return
			}
			runs++
		})
		// judged return by return: explorePaths reports every path that reaches it with the path's resolution
		for _, b := range fn.Blocks {
			ret, ok := b.Instrs[len(b.Instrs)-1].(*ssa.Return)
			if !ok || len(ret.Results) == 0 {
				continue
			}
			over := explorePaths(fn, ret, assume, func(ssa.Instruction) bool { return false }, func(resolve func(ssa.Value) ssa.Value) {
				v := resolve(ret.Results[0])
				if bv, isK := constBool(v); !isK || bv {
					why = "a return reached with the evaluation error set yields " + TermOf(v, nil).String() + " (" + a.pos(ret.Pos()) + ")"
				}
			})
			if over {
				why = "too many paths through " + fname(fn) + " to decide"
			}
		}
		if runs == 0 {
			why = "no evaluation call (a call yielding (any, error)) found in " + fname(fn)
		}
		a.Check(why == "", fname(fn)+"#error-returns-false", fn.Pos(), "on the general path an evaluation error yields false (row rejected)", "an evaluation error does not yield false: "+why)
		// AsBool
		ctor := a.Func("condition", "NewExprCondition")
		found := false
		allInstrs(ctor, func(in ssa.Instruction) {
			if isCallNamed(in, "github.com/expr-lang/expr", "AsBool") {
				found = true
			}
		})
		a.Check(found, fname(ctor)+"#as-bool", ctor.Pos(), "predicates are compiled with expr.AsBool()", "NewExprCondition does not pass expr.AsBool(): a non-boolean predicate would make result.(bool) panic")
	})
	a.Rule("whomay/predicate-compilers", 4, func() {
		ctor := a.Func("condition", "NewExprCondition")
		want := map[string]string{
			"(*stream.Stream).RegisterFilter":                  "WHERE",
			"(*stream.DataProcessor).applyHavingWithCondition": "HAVING",
			"stream.NewAnalyticEngine":                         "OVER ... WHEN",
			"(*window.GlobalWindow).buildTrigger":              "TRIGGER WHEN",
		}
		got := map[string]token.Pos{}
		for _, fn := range a.ModFuncs {
			for _, c := range callsTo(fn, ctor) {
				// a function literal is part of the function it is written in
				root := fn
				for root.Parent() != nil {
					root = root.Parent()
				}
				got[fname(root)] = c.Pos()
			}
		}
		for f, kind := range want {
			pos, ok := got[f]
			a.Check(ok, "compiles:"+kind, pos, kind+" predicates are compiled by condition.NewExprCondition in "+f, kind+" predicates are no longer compiled through condition.NewExprCondition ("+f+" does not call it): this predicate kind escapes the checked evaluation path")
		}
	})
}

func (a *A) ruleFastFallback() {
	fcT := a.Named("condition", "fastCompare")
	isStr := a.FieldOf(fcT, "isString")
	toF := a.Func("condition", "toFloat64Fast")
	// every method of fastCompare that reports (result, ok): the two entry points and whatever they
	// share the comparison with
	var methods []*ssa.Function
	for _, fn := range a.ModFuncs {
		if fn.Blocks == nil || fn.Signature.Recv() == nil || !types.Identical(derefT(fn.Signature.Recv().Type()), types.Type(fcT)) {
			continue
		}
		if res := fn.Signature.Results(); res.Len() == 2 && isBool(res.At(0).Type()) && isBool(res.At(1).Type()) {
			methods = append(methods, fn)
		}
	}
	sort.Slice(methods, func(i, j int) bool { return fname(methods[i]) < fname(methods[j]) })
	answers := 0
	for _, fn := range methods {
		entry := fn.Name() == "eval" || fn.Name() == "evalMap"
		// every return with ok == true
		n := 0
		for _, b := range fn.Blocks {
			ret, ok := b.Instrs[len(b.Instrs)-1].(*ssa.Return)
			if !ok || len(ret.Results) != 2 {
				continue
			}
			k, isC := ret.Results[1].(*ssa.Const)
			if !isC || k.Value == nil || !constant.BoolVal(k.Value) {
				continue
			}
			if !reachUnder(fn, ret, func(ssa.Value) Tri { return U }) {
				continue // reached only with an option switched on that was added after this rule was written
			}
			n++
			strGuard := guardedByValue(b, func(v ssa.Value) bool {
				return isFieldOf(TermOf(v, nil), "condition.fastCompare", "isString") && fieldVarOf(derefLoad(v)) == isStr
			}, true) &&
				guardedByValue(b, func(v ssa.Value) bool {
					ex, ok := v.(*ssa.Extract)
					if !ok || ex.Index != 1 {
						return false
					}
					ta, ok := ex.Tuple.(*ssa.TypeAssert)
					return ok && isStringType(ta.AssertedType)
				}, true)
			numGuard := guardedByValue(b, func(v ssa.Value) bool { return isFieldOf(TermOf(v, nil), "condition.fastCompare", "isString") }, false) &&
				guardedByValue(b, func(v ssa.Value) bool {
					ex, ok := v.(*ssa.Extract)
					if !ok || ex.Index != 1 {
						return false
					}
					c, ok := ex.Tuple.(*ssa.Call)
					return ok && c.Call.StaticCallee() == toF
				}, true)
			a.Check(strGuard || numGuard, fname(fn)+"#answers-only-on-type-match", ret.Pos(),
				"the shortcut answers only after the value passed the type test matching the literal's kind",
				"the shortcut answers (ok=true) without a successful type test matching the literal's kind: values of another type would be decided by the shortcut instead of the general engine")
		}
		answers += n
		if !entry {
			continue
		}
		// missing or NULL field -> ok=false
		for _, cs := range []string{"missing", "null"} {
			env := &Env{a: a, Rank: map[string]int{}, Flags: map[string]bool{}, Assume: func(t *Term, v ssa.Value) Tri {
				if ex, ok := v.(*ssa.Extract); ok && ex.Index == 1 {
					if _, ok := ex.Tuple.(*ssa.Lookup); ok {
						return tri(cs != "missing")
					}
					if ta, ok := ex.Tuple.(*ssa.TypeAssert); ok {
						if _, isMap := ta.AssertedType.Underlying().(*types.Map); isMap {
							return T
						}
					}
				}
				if bo, ok := v.(*ssa.BinOp); ok && bo.Op == token.EQL {
					if k, ok := bo.Y.(*ssa.Const); ok && k.Value == nil {
						// a NULL field is nil; so is what a plain (not comma-ok) lookup of a missing key yields
						return T
					}
				}
				return U
			}}
			w := NewWalker(env, nil)
			w.RetIdx = 1
			bad := ""
			for _, o := range w.Run(fn.Blocks[0], nil) {
				if o.Ended != "return" || o.Ret != F {
					bad = fmt.Sprintf("a path ends with %s ok=%v", o.Ended, o.Ret)
				}
			}
			a.Check(bad == "", fmt.Sprintf("%s#%s-falls-back", fname(fn), cs), fn.Pos(), "a "+cs+" field makes the shortcut fall back (ok=false)", "a "+cs+" field is decided by the shortcut: "+bad)
		}
	}
	if answers == 0 {
		a.Und("(*condition.fastCompare)#answers-only-on-type-match", token.NoPos, "no return with ok=true found in the methods of fastCompare")
	}
	// compound: any part not ok -> whole falls back
	fn := a.Method("condition", "fastCompound", "eval")
	em := a.Method("condition", "fastCompare", "evalMap")
	n := 0
	for _, c := range callsTo(fn, em) {
		n++
		var okV ssa.Value
		for _, r := range *c.(*ssa.Call).Referrers() {
			if ex, ok := r.(*ssa.Extract); ok && ex.Index == 1 {
				okV = ex
			}
		}
		// on the false edge of ok, the function returns ok=false
		good := false
		if okV != nil {
			// the branch may test ok or a named negation of it (`bad := !ok; if bad {`)
			type use struct {
				v   ssa.Value
				neg bool
			}
			work := []use{{okV, false}}
			for len(work) > 0 {
				u := work[0]
				work = work[1:]
				for _, r := range *u.v.Referrers() {
					if un, ok := r.(*ssa.UnOp); ok && un.Op == token.NOT {
						work = append(work, use{un, !u.neg})
					}
					if iff, ok := r.(*ssa.If); ok {
						fb := iff.Block().Succs[1]
						if u.neg {
							fb = iff.Block().Succs[0]
						}
						if ret, ok := fb.Instrs[len(fb.Instrs)-1].(*ssa.Return); ok && len(ret.Results) == 2 {
							if k, ok := ret.Results[1].(*ssa.Const); ok && k.Value != nil && !constant.BoolVal(k.Value) {
								good = true
							}
						}
					}
				}
			}
		}
		a.Check(good, fname(fn)+"#part-fallback", c.Pos(), "when one part cannot be decided the whole compound falls back", "a compound predicate continues although one part could not be decided by the shortcut")
	}
	if n == 0 {
		a.Und(fname(fn)+"#part-fallback", fn.Pos(), "fastCompound.eval does not call evalMap")
	}
}

func derefLoad(v ssa.Value) ssa.Value {
	if u, ok := v.(*ssa.UnOp); ok && u.Op == token.MUL {
		return u.X
	}
	return v
}

const exact53 = int64(1) << 53

// ruleLossless: wide integer -> float64 conversions and accepted literals stay within +-2^53.
func (a *A) ruleLossless() {
	fn := a.Func("condition", "toFloat64Fast")
	boundRole := func(t *Term) string {
		if t.Kind == "const" && t.Const != nil {
			if t.Const.Kind() == constant.Int || t.Const.Kind() == constant.Float {
				f, _ := constant.Float64Val(t.Const)
				if f > 0 && f <= float64(exact53) {
					return "M"
				}
				if f < 0 && f >= -float64(exact53) {
					return "m"
				}
			}
		}
		return ""
	}
	n := 0
	// the coercion and the helpers it delegates to (same package)
	scope := []*ssa.Function{fn}
	for f := range a.ReachFrom([]*ssa.Function{fn}) {
		if f != fn && f.Pkg == fn.Pkg && f.Blocks != nil {
			scope = append(scope, f)
		}
	}
	sort.Slice(scope, func(i, j int) bool { return fname(scope[i]) < fname(scope[j]) })
	top := fn
	for _, fn := range scope {
		fn := fn
		allInstrs(fn, func(in ssa.Instruction) {
			cv, ok := in.(*ssa.Convert)
			if !ok {
				return
			}
			src, ok := cv.X.Type().Underlying().(*types.Basic)
			dst, ok2 := cv.Type().Underlying().(*types.Basic)
			if ok && ok2 && src.Info()&types.IsInteger != 0 && dst.Info()&types.IsInteger != 0 {
				// a 64-bit integer re-interpreted with the other signedness wraps: uint64(2^64-5) -> int64(-5)
				wide64 := func(b *types.Basic) bool {
					switch b.Kind() {
					case types.Int, types.Int64, types.Uint, types.Uint64, types.Uintptr:
						return true
					}
					return false
				}
				if wide64(src) && wide64(dst) && (src.Info()&types.IsUnsigned != 0) != (dst.Info()&types.IsUnsigned != 0) {
					n++
					guarded := false
					for _, g := range guardsOf(cv.Block()) {
						if bo, ok := g.Cond.(*ssa.BinOp); ok {
							_, kx := bo.X.(*ssa.Const)
							_, ky := bo.Y.(*ssa.Const)
							if (bo.X == cv.X && ky) || (bo.Y == cv.X && kx) {
								guarded = true
							}
						}
					}
					a.Check(guarded, fmt.Sprintf("%s#resign-%s-to-%s", fname(fn), src.Name(), dst.Name()), cv.Pos(),
						"the 64-bit value changes signedness only after a range test",
						fmt.Sprintf("a %s is converted to %s without a range test: values in the top half wrap (uint64 2^64-5 becomes -5), pass the +-2^53 check as small numbers and are compared as such, while the general engine compares the real value", src.Name(), dst.Name()))
				}
				return
			}
			if !ok || !ok2 || dst.Kind() != types.Float64 {
				return
			}
			wide, signed := false, false
			switch src.Kind() {
			case types.Int, types.Int64:
				wide, signed = true, true
			case types.Uint, types.Uint64, types.Uintptr:
				wide = true
			}
			if !wide {
				return
			}
			n++
			// the converted value, or - when it was first widened into a variable shared by several arms of a
			// type switch - each value that variable can hold (the path exploration resolves it to one of them)
			xs := map[string]bool{TermOf(cv.X, nil).String(): true}
			for _, l := range phiLeaves(cv.X) {
				if _, isK := l.(*ssa.Const); !isK {
					xs[TermOf(l, nil).String()] = true
				}
			}
			roles := []string{"x", "M"}
			if signed {
				roles = []string{"x", "M", "m"}
			}
			spec := OrdSpec{Roles: roles,
				Invariant: func(r map[string]int, _ map[string]bool) bool {
					if signed {
						return r["m"] < r["M"]
					}
					return true
				},
				Role: func(t *Term) string {
					if xs[t.String()] {
						return "x"
					}
					return boundRole(t)
				}}
			a.OnlyIf(fmt.Sprintf("%s#convert-%s", fname(fn), src.Name()), cv.Pos(), fmt.Sprintf("%s is converted to float64 only within +-2^53 (beyond it the general engine, which compares integers exactly, must decide)", src.Name()), spec,
				fn.Blocks[0], nil, nil,
				func(x ssa.Instruction, _ *Walker) bool { return x == in },
				func(r map[string]int, _ map[string]bool) bool {
					if signed {
						return r["x"] <= r["M"] && r["x"] >= r["m"]
					}
					return r["x"] <= r["M"]
				})
		})
	}
	fn = top
	if n == 0 {
		a.Ok(fname(fn)+"#convert", fn.Pos(), "no wide-integer conversion on the shortcut path").Trivial = true
	}
	// literal acceptance
	tf := a.Func("condition", "tryFastCompare")
	fcT := a.Named("condition", "fastCompare")
	numLit := a.FieldOf(fcT, "numLit")
	for _, st := range storesToField(tf, numLit) {
		// the literal as parsed: the stored value itself, or (carried through a variable after a helper was
		// folded in) each value the variable can hold, the placeholder constants of the refusing paths aside
		vs := map[string]bool{TermOf(st.Val, nil).String(): true}
		for _, l := range phiLeaves(st.Val) {
			if _, isK := l.(*ssa.Const); !isK {
				vs[TermOf(l, nil).String()] = true
			}
		}
		// (a term that reads through a merged variable - the match slice picked by a helper that was folded in - is
		// met on a path with the variable resolved: matched up to the merged parts)
		var vsPat []*regexp.Regexp
		for k := range vs {
			if strings.Contains(k, "phi@") && len(regexp.MustCompile(`phi@[A-Za-z0-9_]+`).ReplaceAllString(k, "")) >= 12 {
				q := regexp.QuoteMeta(k)
				q = regexp.MustCompile(`phi@[A-Za-z0-9_]+`).ReplaceAllString(q, `.+`)
				vsPat = append(vsPat, regexp.MustCompile("^"+q+"$"))
			}
		}
		spec := OrdSpec{Roles: []string{"x", "M", "m"},
			Invariant: func(r map[string]int, _ map[string]bool) bool { return r["m"] < r["M"] },
			Role: func(t *Term) string {
				ts := t.String()
				if vs[ts] {
					return "x"
				}
				for _, re := range vsPat {
					if re.MatchString(ts) {
						return "x"
					}
				}
				return boundRole(t)
			}}
		a.OnlyIf(fname(tf)+"#literal-exact", st.Pos(), "a numeric literal is accepted by the shortcut only strictly inside +-2^53 (2^53+1 already parses to 2^53)", spec,
			tf.Blocks[0], nil, nil,
			func(x ssa.Instruction, _ *Walker) bool { return x == ssa.Instruction(st) },
			func(r map[string]int, _ map[string]bool) bool { return r["x"] < r["M"] && r["x"] > r["m"] })
	}
}

func isQuoteLit(r *syntax.Regexp) bool {
	return r.Op == syntax.OpLiteral && len(r.Rune) > 0 && r.Rune[len(r.Rune)-1] == '\'' && r.Rune[0] == '\''
}

// ruleHavingFailsClosed: "a predicate whose evaluation fails rejects the row". The HAVING filters
// compile their predicate at run time; when that fails they must not hand back their input (every
// group accepted). On every return that is guarded by a non-nil error, the returned slice is not the
// parameter.
func (a *A) ruleHavingFailsClosed() int {
	n := 0
	for _, name := range []string{"applyHavingWithCondition", "applyHavingWithCaseExpression"} {
		fn := a.Method("stream", "DataProcessor", name)
		var param ssa.Value
		for _, p := range fn.Params {
			if _, ok := p.Type().Underlying().(*types.Slice); ok {
				param = p
			}
		}
		for _, b := range fn.Blocks {
			ret, ok := b.Instrs[len(b.Instrs)-1].(*ssa.Return)
			if !ok || len(ret.Results) == 0 {
				continue
			}
			onErr := guardedNil(b, func(x ssa.Value) bool { return isErrorType(x.Type()) }, false)
			if !onErr {
				continue
			}
			n++
			same := false
			for _, l := range phiLeaves(ret.Results[0]) {
				if l == param {
					same = true
				}
			}
			a.Check(!same, fname(fn)+"#fails-closed", ret.Pos(), "on a predicate that cannot be compiled the filter returns nothing",
				"on a predicate that cannot be compiled the filter returns its input: every group is delivered although the predicate could not be evaluated")
		}
	}
	return n
}

// ruleNullSafePredicates: predicates are compiled for the expression engine, whose comparisons raise a
// run-time error on a nil operand (whole predicate false) or use Go's nil equality (nil != 5 true).
// NewExprCondition must install the patch that makes such comparisons not-true, and the patch must
// cover all six comparison operators.
func (a *A) ruleNullSafePredicates() {
	nec := a.Func("condition", "NewExprCondition")
	patchT := a.Named("condition", "nullSafeComparisons")
	installed := false
	allInstrs(nec, func(in ssa.Instruction) {
		c, ok := in.(*ssa.Call)
		if !ok || c.Call.StaticCallee() == nil || c.Call.StaticCallee().Name() != "Patch" {
			return
		}
		for _, arg := range c.Call.Args {
			v := arg
			if mi, ok := v.(*ssa.MakeInterface); ok {
				v = mi.X
			}
			if isNamedType(v.Type(), patchT.Obj().Pkg().Path(), "nullSafeComparisons") {
				installed = true
			}
		}
	})
	a.Check(installed, fname(nec)+"#null-safe-patch", nec.Pos(), "predicates are compiled with the NULL-safe comparison patch",
		"NewExprCondition does not install the NULL-safe comparison patch: a NULL operand aborts the whole predicate (n > 1 OR a > 1) or compares by Go's nil equality (n != 5 is true)")
	visit := a.methodOf(patchT, "Visit")
	if visit == nil {
		a.anchorFail("nullSafeComparisons.Visit not found")
	}
	have := map[string]bool{}
	allInstrs(visit, func(in ssa.Instruction) {
		if bo, ok := in.(*ssa.BinOp); ok && bo.Op == token.EQL {
			if s := constText(bo.Y); s != "" {
				have[s] = true
			}
		}
	})
	var missing []string
	for _, op := range []string{"==", "!=", "<", ">", "<=", ">="} {
		if !have[op] {
			missing = append(missing, op)
		}
	}
	a.Check(len(missing) == 0, fname(visit)+"#operators", visit.Pos(), "the patch covers ==, !=, <, >, <=, >=",
		"the NULL-safe patch does not cover "+strings.Join(missing, " ")+": these comparisons still see a nil operand")
}
