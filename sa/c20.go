package main

import (
	"fmt"
	"go/token"
	"go/types"
	"golang.org/x/tools/go/ssa"
	"sort"
	"strings"
)

func init() {
	register(&Prop{
		ID:          "C20",
		Decided:     "(1) no map update, delete, element store, in-place sort, copy-into or reflect setter is applied to a value that may alias the map passed to Emit/EmitSync/Stream.Emit/ProcessSync or a container nested in it, anywhere in the module (interprocedural, field-based taint over SSA, through the input channel, types.Row.Data, closures and interface calls); (2) the package-level variables written by module code outside init are a subset of a frozen, reasoned table (process-wide registry and caches) - or a sync.Pool used only through Get/Put from which no object outlives the function that took it (an exchange of scratch objects in exclusive use) -, and the mutated fields of the process-wide singletons (ExprBridge, FunctionRegistry) are a subset of a reviewed table - or bookkeeping of the registry written only by the functions that write the registry itself -, so no new cross-instance or history channel exists. Also: Validate/Execute of every registered function type (298 methods) do not store into the receiver, the process-wide registry singleton; no delivered row or returned result is the caller's own map. Also: no method that writes its receiver (Init, Add, Reset, ... as decided from the implementations) is invoked on a value taken straight out of the function registry; instances get their parameters on a New()/Clone() copy (ownmap/registry-objects-not-mutated). Also: in package functions a failing run of a program obtained from the bridge's process-wide compile cache (compiled against another row's value types) is always followed by the evaluation against the row itself (expr.Eval) before an error is returned (flow/cached-program-failure-falls-back). Also: the key of every Load/Store on a text-keyed sync.Map memo in package functions is the function's own text parameter, unmodified (or a concatenation containing it): two different expressions never share an entry of a process-wide cache (flow/memo-key-is-the-input). Also: no struct type and no package-level variable of the module holds an expr-lang vm.VM (ownmap/no-retained-vm): the run-time state of one evaluation is never kept in an object shared by concurrent evaluations or by all instances of the process.",
		NotDecided:  "equality of paired vs solo runs (the contents of the shared caches are value-level; the rule bounds which shared state exists, not what it holds); mutation by third-party code (expr-lang) or by user-registered functions; rows handed to sinks being altered afterwards is decided only for the caller-map taint, not for result maps.",
		Assumptions: []string{"field-based heap abstraction: all types.Row.Data, all Stream.dataChan are merged; the global-window branch of processWindowBatch is excluded by two checked side obligations", "library code called with the caller's row (reflect reads, expr-lang VM) does not write it"},
		Run:         runC20,
	})
}

func runC20(a *A) {
	a.Rule("ownmap/caller-map", 6, func() { a.ruleCallerMap(map[string]string{}) })
	a.Rule("ownmap/caller-map-not-handed-out", 5, func() { a.ruleCallerMapNotHandedOut() })
	a.Rule("ownmap/no-retained-vm", 1, func() { a.ruleNoRetainedVM() })
	a.Rule("flow/memo-key-is-the-input", 4, func() { a.ruleMemoKeyIsTheInput() })
	a.Rule("flow/cached-program-failure-falls-back", 1, func() { a.ruleCachedProgramFailureFallsBack() })
	a.Rule("ownmap/singleton-state", 3, func() { a.ruleSingletonState() })
	a.Rule("flow/pooled-map-cleared", 1, func() { a.rulePooledMapsModule() })
	a.Rule("ownmap/shared-state", 5, func() { a.ruleSharedState() })
	a.Rule("ownmap/registered-functions-stateless", 100, func() { a.ruleRegisteredFunctionsStateless() })
	a.Rule("ownmap/registry-objects-not-mutated", 5, func() { a.ruleRegistryObjectsNotMutated() })
}

func (a *A) rulePooledMapsModule() {
	n := 0
	for _, fn := range a.ModFuncs {
		if fn.Pkg != nil && !strings.Contains(fn.Pkg.Pkg.Path(), "/examples/") {
			n += a.rulePooledMapCleared(fn)
		}
	}
	if n == 0 {
		a.Und("pooled-map-cleared", token.NoPos, "no map taken from a sync.Pool found in the module")
	}
}

func (a *A) ruleSharedState() {
	table := map[string]string{
		"cep.baseMapPool":                    "sync.Pool of scratch maps for DEFINE evaluation; every map is cleared when taken",
		"functions.adapterMutex":             "guards the aggregator-adapter registry",
		"functions.aggregatorAdapters":       "aggregator-adapter registry, mutated only by the user-facing RegisterAggregatorAdapter",
		"functions.globalBridge":             "lazily created process-wide expr bridge (caches keyed by expression text)",
		"functions.globalBridgeMutex":        "guards the lazy creation of the bridge",
		"functions.legacyAggregatorRegistry": "legacy aggregator registry, mutated only by the user-facing RegisterLegacyAggregator",
		"functions.legacyRegistryMutex":      "guards the legacy registry",
		"logger.defaultInstance":             "default logger, replaced only by the user-facing SetDefault",
		"window.tsWarnOnce":                  "warn-once latch for unplaceable timestamps (log output only)",
	}
	gw := a.globalWriters()
	var names []string
	for g := range gw {
		if strings.HasPrefix(g, "examples/") {
			continue
		}
		names = append(names, g)
	}
	sort.Strings(names)
	for _, g := range names {
		if why, ok := table[g]; ok {
			a.Ok("global:"+g, token.NoPos, "%s; writers: %v", why, gw[g])
		} else if a.logOnceLatch(g) {
			a.Ok("global:"+g, token.NoPos, "a sync.Once used only through Do, whose function writes nothing but a log line: a warn-once latch (log output only); users: %v", gw[g])
		} else if ok, how := a.exclusivePool(g); ok {
			a.Ok("global:"+g, token.NoPos, "a sync.Pool used only through Get/Put, and no object taken from it outlives the function that took it (%s): an exchange of scratch objects, each in exclusive use; users: %v", how, gw[g])
		} else {
			a.Bad("global:"+g, token.NoPos, "package-level variable %s is written by %v: new process-wide mutable state through which two instances can influence each other (not in the reviewed table)", g, gw[g])
		}
	}
}

// ruleRegisteredFunctionsStateless: the objects in the function registry are process-wide singletons
// shared by every query of every instance. Their Validate and Execute methods run per query / per row
// on the singleton itself, so they must not store into it: state written there by one query (the N of
// nth_value, a parsed option) is inherited by every instance created later with New(). Only the
// per-group instances returned by New() may accumulate state (Add/Reset/Result).
func (a *A) ruleRegisteredFunctionsStateless() int {
	iface := a.Iface("functions", "Function")
	n := 0
	for _, T := range a.namedTypesOf(a.Pkg("functions")) {
		pt := types.NewPointer(T)
		if !typesImplements(pt, iface) {
			continue
		}
		for _, mname := range []string{"Validate", "Execute"} {
			fn := a.methodOf(T, mname)
			if fn == nil || fn.Blocks == nil || len(fn.Params) == 0 {
				continue
			}
			// promoted methods of embedded BaseFunction are judged once, on BaseFunction
			if rt := fn.Signature.Recv().Type(); !types.Identical(rt, pt) {
				continue
			}
			n++
			recv := fn.Params[0]
			var bad *ssa.Store
			allInstrs(fn, func(in ssa.Instruction) {
				st, ok := in.(*ssa.Store)
				if !ok || bad != nil {
					return
				}
				v := st.Addr
				for i := 0; i < 6; i++ {
					switch x := v.(type) {
					case *ssa.FieldAddr:
						v = x.X
						continue
					case *ssa.IndexAddr:
						v = x.X
						continue
					}
					break
				}
				if v == ssa.Value(recv) {
					bad = st
				}
			})
			construct := fmt.Sprintf("(*functions.%s).%s#stateless", T.Obj().Name(), mname)
			if bad == nil {
				a.Ok(construct, fn.Pos(), "does not store into the registered singleton").Trivial = true
			} else {
				a.Bad(construct, bad.Pos(), "%s stores into its receiver (%s), the process-wide singleton in the function registry: what one query writes there is inherited by every instance created later with New(), in every Streamsql instance", mname, TermOf(bad.Addr, nil).String())
			}
		}
	}
	return n
}

// namedTypesOf: the named (non-interface) types declared in package p, sorted by name.
func (a *A) namedTypesOf(p *ssa.Package) []*types.Named {
	var out []*types.Named
	sc := p.Pkg.Scope()
	for _, nm := range sc.Names() {
		if tn, ok := sc.Lookup(nm).(*types.TypeName); ok && !tn.IsAlias() {
			if n, ok := tn.Type().(*types.Named); ok {
				if _, isI := n.Underlying().(*types.Interface); !isI {
					out = append(out, n)
				}
			}
		}
	}
	return out
}

// ruleRegistryObjectsNotMutated: the objects in the function registry are process-wide prototypes; an
// instance gets its own copy through New()/Clone(). No method that writes its receiver (Init, Add,
// Reset, Apply, ... — decided from the implementations) is invoked on a value that comes straight out
// of the registry: what Init(args) of one query leaves there (percentile's p, nth_value's n) is inherited
// by every instance created later, in every Streamsql instance of the process.
func (a *A) ruleRegistryObjectsNotMutated() int {
	fpkg := a.Pkg("functions")
	fnIface := a.Iface("functions", "Function")
	// methods with an implementation that stores into its receiver
	mutating := map[string]bool{}
	for _, T := range a.namedTypesOf(fpkg) {
		pt := types.NewPointer(T)
		if !typesImplements(pt, fnIface) {
			continue
		}
		ms := a.Prog.MethodSets.MethodSet(pt)
		for i := 0; i < ms.Len(); i++ {
			fn := a.Prog.MethodValue(ms.At(i))
			if fn == nil || fn.Blocks == nil || len(fn.Params) == 0 || mutating[fn.Name()] {
				continue
			}
			recv := fn.Params[0]
			allInstrs(fn, func(in ssa.Instruction) {
				st, ok := in.(*ssa.Store)
				if !ok {
					return
				}
				v := st.Addr
				for i := 0; i < 6; i++ {
					switch x := v.(type) {
					case *ssa.FieldAddr:
						v = x.X
						continue
					case *ssa.IndexAddr:
						v = x.X
						continue
					}
					break
				}
				if v == ssa.Value(recv) {
					mutating[fn.Name()] = true
				}
			})
		}
	}
	// Validate and Execute are *meant* to run on the registered object: that they do not write it is
	// decided per implementation by ownmap/registered-functions-stateless
	delete(mutating, "Validate")
	delete(mutating, "Execute")
	// registry accessors: functions of package functions returning a Function looked up in a map
	accessor := map[*ssa.Function]bool{}
	for changed := true; changed; {
		changed = false
		for _, fn := range a.ModFuncs {
			if fn.Pkg != fpkg || fn.Blocks == nil || fn.Signature.Results().Len() == 0 || accessor[fn] {
				continue
			}
			if !types.Identical(fn.Signature.Results().At(0).Type().Underlying(), fnIface) {
				continue
			}
			for _, b := range fn.Blocks {
				ret, ok := b.Instrs[len(b.Instrs)-1].(*ssa.Return)
				if !ok {
					continue
				}
				for x := range sliceThroughLocals(ret.Results[0], fn, 8) {
					if lk, ok := x.(*ssa.Lookup); ok {
						if _, isMap := lk.X.Type().Underlying().(*types.Map); isMap {
							accessor[fn] = true
						}
					}
					if c, ok := x.(*ssa.Call); ok && c.Call.StaticCallee() != nil && accessor[c.Call.StaticCallee()] {
						accessor[fn] = true
					}
				}
			}
			if accessor[fn] {
				changed = true
			}
		}
	}
	if len(accessor) == 0 {
		a.anchorFail("no registry accessor found in package functions")
	}
	n := 0
	for _, fn := range a.ModFuncs {
		if fn.Blocks == nil {
			continue
		}
		allInstrs(fn, func(in ssa.Instruction) {
			c, ok := in.(*ssa.Call)
			if !ok || !c.Call.IsInvoke() || !mutating[c.Call.Method.Name()] {
				return
			}
			if mp := c.Call.Method.Pkg(); mp == nil || mp != fpkg.Pkg {
				return
			}
			fromRegistry := ""
			seen := map[ssa.Value]bool{}
			var walk func(v ssa.Value, d int)
			walk = func(v ssa.Value, d int) {
				if v == nil || seen[v] || d > 10 {
					return
				}
				seen[v] = true
				switch x := v.(type) {
				case *ssa.Phi:
					for _, e := range x.Edges {
						walk(e, d+1)
					}
				case *ssa.TypeAssert:
					walk(x.X, d+1)
				case *ssa.ChangeInterface:
					walk(x.X, d+1)
				case *ssa.Extract:
					walk(x.Tuple, d+1)
				case *ssa.UnOp:
					if al, ok := x.X.(*ssa.Alloc); ok && x.Op == token.MUL {
						allInstrs(fn, func(in ssa.Instruction) {
							if st, ok := in.(*ssa.Store); ok && st.Addr == ssa.Value(al) {
								walk(st.Val, d+1)
							}
						})
					}
				case *ssa.Call:
					if sc := x.Call.StaticCallee(); sc != nil && accessor[sc] {
						fromRegistry = fname(sc) + " at " + a.pos(x.Pos())
					}
				}
			}
			walk(c.Call.Value, 0)
			n++
			a.Check(fromRegistry == "", fmt.Sprintf("%s->%s#not-on-registry-object", fname(fn), c.Call.Method.Name()), c.Pos(),
				"the receiver of the state-writing method is not a value taken straight out of the function registry",
				fmt.Sprintf("%s, which writes its receiver, is invoked on the object returned by %s: the registered prototype is shared by every query of the process, so what this call leaves in it is inherited by instances created later", c.Call.Method.Name(), fromRegistry))
		})
	}
	return n
}

// sliceThroughLocals: backwardSlice that also follows a load of a local (defer-spilled results, reassigned
// locals) to the values stored into it.
func sliceThroughLocals(v ssa.Value, fn *ssa.Function, depth int) map[ssa.Value]bool {
	out := map[ssa.Value]bool{}
	var walk func(x ssa.Value, d int)
	walk = func(x ssa.Value, d int) {
		if x == nil || out[x] || d > depth {
			return
		}
		out[x] = true
		if u, ok := x.(*ssa.UnOp); ok && u.Op == token.MUL {
			if al, ok := u.X.(*ssa.Alloc); ok {
				allInstrs(fn, func(in ssa.Instruction) {
					if st, ok := in.(*ssa.Store); ok && st.Addr == ssa.Value(al) {
						walk(st.Val, d+1)
					}
				})
				return
			}
		}
		if in, ok := x.(ssa.Instruction); ok {
			for _, op := range in.Operands(nil) {
				if *op != nil {
					walk(*op, d+1)
				}
			}
		}
	}
	walk(v, 0)
	return out
}
