package main

// keyenc.go — E5: injectivity of composite-key encoders.
//
// For an encoder function the engine recovers, from SSA, the *shape* of the returned
// string: constants, dynamic components (raw strings, numbers, type names), decimal
// lengths of other components, concatenation, alternatives (branches), repetition (one piece
// per key column) and strings.Join. It then decides unique decodability by construction:
// every raw component inside a repetition must be framed (length-prefixed, or quoted), the
// alternatives of a component must be told apart by their first bytes, and a branch that emits
// only a constant (the NULL/missing branch) must not be producible by a value branch.
// When the shape is not uniquely decodable a concrete collision witness is printed.

import (
	"os"
	"sort"
	"fmt"
	"go/constant"
	"go/token"
	"go/types"
	"strconv"
	"strings"

	"golang.org/x/tools/go/ssa"
)

type keyencOpts struct {
	TypeTags bool // '1' and 1 must be separated and numeric kinds normalised (C16)
}

type Shape struct {
	K   string // const raw num typename quoted lenof concat alt rep join self unknown framed
	S   string
	Sub []*Shape
	Of  ssa.Value
	Why string
}

func (s *Shape) String() string {
	switch s.K {
	case "const":
		return strconv.Quote(s.S)
	case "raw":
		return "RAW"
	case "byte":
		return "BYTE"
	case "esc":
		return "ESC(" + strconv.Quote(s.S) + ")"
	case "num":
		return "NUM"
	case "typename":
		return "TYPE"
	case "quoted":
		return "QUOTED"
	case "lenof":
		return "LEN"
	case "self":
		return "SELF"
	case "unknown":
		return "?(" + s.Why + ")"
	case "framed":
		return "FRAMED[" + s.Sub[0].String() + "]"
	case "join":
		return "JOIN(" + strconv.Quote(s.S) + ", " + s.Sub[0].String() + "*)"
	case "rep":
		return "(" + s.Sub[0].String() + ")*"
	}
	var parts []string
	for _, x := range s.Sub {
		parts = append(parts, x.String())
	}
	if s.K == "alt" {
		return "{" + strings.Join(parts, " | ") + "}"
	}
	return strings.Join(parts, " ")
}

type shaper struct {
	a        *A
	memo     map[ssa.Value]*Shape
	inprog   map[ssa.Value]bool
	depth    int
	impure   []string
	callers  []*ssa.Function
	typeTags bool
	nilUses  []nilUse // interface values converted to key text: each needs a dominating nil test
	viaFloat []nilUse // interface values widened to float64 and then rendered: 64-bit integers must have been dealt with
}

type nilUse struct {
	at ssa.Instruction
	x  ssa.Value
}

func konst(s string) *Shape { return &Shape{K: "const", S: s} }
func unknown(format string, args ...any) *Shape {
	return &Shape{K: "unknown", Why: fmt.Sprintf(format, args...)}
}

func concat(parts ...*Shape) *Shape {
	var out []*Shape
	for _, p := range parts {
		if p == nil {
			continue
		}
		if p.K == "concat" {
			out = append(out, p.Sub...)
		} else if p.K == "const" && p.S == "" {
			continue
		} else {
			out = append(out, p)
		}
	}
	// merge adjacent consts
	var m []*Shape
	for _, p := range out {
		if len(m) > 0 && m[len(m)-1].K == "const" && p.K == "const" {
			m[len(m)-1] = konst(m[len(m)-1].S + p.S)
		} else {
			m = append(m, p)
		}
	}
	if len(m) == 0 {
		return konst("")
	}
	if len(m) == 1 {
		return m[0]
	}
	return &Shape{K: "concat", Sub: m}
}

func alt(parts ...*Shape) *Shape {
	var out []*Shape
	seen := map[string]bool{}
	for _, p := range parts {
		if p == nil {
			continue
		}
		sub := []*Shape{p}
		if p.K == "alt" {
			sub = p.Sub
		}
		for _, x := range sub {
			k := x.String()
			if x.K == "esc" {
				// same scheme: one alternative
			} else if x.K == "raw" || x.K == "lenof" {
				k += fmt.Sprintf("%p", x.Of)
			}
			if !seen[k] {
				seen[k] = true
				out = append(out, x)
			}
		}
	}
	if len(out) == 1 {
		return out[0]
	}
	return &Shape{K: "alt", Sub: out}
}

func (sh *shaper) of(v ssa.Value) *Shape {
	if s, ok := sh.memo[v]; ok {
		return s
	}
	if sh.inprog[v] {
		return &Shape{K: "self", Of: v}
	}
	sh.inprog[v] = true
	sh.depth++
	var s *Shape
	if sh.depth > 60 {
		s = unknown("too deep")
	} else {
		s = sh.of1(v)
	}
	sh.depth--
	delete(sh.inprog, v)
	sh.memo[v] = s
	return s
}

func isStringType(t types.Type) bool {
	b, ok := t.Underlying().(*types.Basic)
	return ok && b.Info()&types.IsString != 0
}

func (sh *shaper) of1(v ssa.Value) *Shape {
	if isByteSlice(v.Type()) {
		if s := sh.bytes1(v); s != nil {
			return s
		}
	}
	switch x := v.(type) {
	case *ssa.Const:
		if x.Value != nil && x.Value.Kind() == constant.String {
			return konst(constant.StringVal(x.Value))
		}
		if x.Value != nil && x.Value.Kind() == constant.Int {
			// byte constant (WriteByte)
			if i, ok := constant.Int64Val(x.Value); ok && i >= 0 && i < 256 {
				return konst(string(rune(i)))
			}
		}
		return unknown("non-string constant")
	case *ssa.BinOp:
		if x.Op == token.ADD && isStringType(x.Type()) {
			// two variables assigned together on every way (`tag, body = "n:", digits` … `tag + body`): the pairs
			// that arrive over the same edge, not every tag with every body
			if px, ok := x.X.(*ssa.Phi); ok {
				if py, ok := x.Y.(*ssa.Phi); ok && px.Block() == py.Block() && len(px.Edges) == len(py.Edges) && px != py {
					var alts []*Shape
					for i := range px.Edges {
						alts = append(alts, concat(sh.of(px.Edges[i]), sh.of(py.Edges[i])))
					}
					return alt(alts...)
				}
			}
			return concat(sh.of(x.X), sh.of(x.Y))
		}
	case *ssa.Phi:
		var inits, pieces []*Shape
		skip := placeholderEdges(x)
		for i, e := range x.Edges {
			if skip[i] {
				continue // the "" that travels with ok == false, where the text is only used under ok
			}
			es := sh.of(e)
			ps, ok := selfPieces(es, x)
			if ok {
				pieces = append(pieces, ps...)
			} else {
				inits = append(inits, es)
			}
		}
		if len(pieces) > 0 {
			return concat(alt(inits...), &Shape{K: "rep", Sub: []*Shape{alt(pieces...)}})
		}
		return alt(inits...)
	case *ssa.Parameter:
		if isStringType(x.Type()) {
			return &Shape{K: "raw", Of: v}
		}
	case *ssa.Extract:
		if c, ok := x.Tuple.(*ssa.Call); ok && x.Index == 0 && isStringType(x.Type()) {
			// the text result of a (string, error) renderer such as cast.ToStringE, or of a module helper
			if cal := c.Call.StaticCallee(); cal != nil && (sh.a.fnInModule(cal) || calleeFull(&c.Call) != "") {
				if s := sh.call(c); s.K != "unknown" {
					return s
				}
			}
			return &Shape{K: "raw", Of: v}
		}
		if ta, ok := x.Tuple.(*ssa.TypeAssert); ok && x.Index == 0 && isStringType(x.Type()) {
			_ = ta
			return &Shape{K: "raw", Of: v}
		}
		if isStringType(x.Type()) {
			return &Shape{K: "raw", Of: v}
		}
	case *ssa.TypeAssert:
		if isStringType(x.Type()) {
			return &Shape{K: "raw", Of: v}
		}
	case *ssa.UnOp:
		if x.Op == token.MUL {
			if al, ok := x.X.(*ssa.Alloc); ok {
				var alts []*Shape
				for _, r := range *al.Referrers() {
					if st, ok := r.(*ssa.Store); ok && st.Addr == al {
						alts = append(alts, sh.of(st.Val))
					}
				}
				if len(alts) > 0 {
					return alt(alts...)
				}
			}
			if isStringType(x.Type()) {
				return &Shape{K: "raw", Of: v}
			}
		}
	case *ssa.Convert:
		if isStringType(x.Type()) {
			// string(bytes) / string(rune)
			if bs, ok := x.X.Type().Underlying().(*types.Slice); ok {
				_ = bs
				return sh.ofBytes(x.X)
			}
			return &Shape{K: "raw", Of: v}
		}
	case *ssa.ChangeType:
		return sh.of(x.X)
	case *ssa.Slice:
		if isStringType(x.Type()) {
			if x.Low == nil && x.High != nil {
				if src, chars := cleanPrefixIdx(x.High); src == x.X && chars != "" {
					// s[:i] where the scan that produced i met none of chars before i
					sh.of(x.X)
					return &Shape{K: "esc", S: chars, Why: "free-prefix", Of: v}
				}
			}
			return &Shape{K: "raw", Of: v}
		}
	case *ssa.Index:
		if isStringType(x.X.Type()) {
			return &Shape{K: "byte", Of: v} // one byte of a string: s[i]
		}
		if isStringType(v.Type()) {
			return &Shape{K: "raw", Of: v}
		}
	case *ssa.Lookup, *ssa.Field:
		if isStringType(v.Type()) {
			return &Shape{K: "raw", Of: v}
		}
	case *ssa.Call:
		return sh.call(x)
	}
	return unknown("%T %s", v, v.Name())
}

// selfPieces: if s is SELF followed by a piece (or alternatives of that form), return the pieces.
func selfPieces(s *Shape, phi ssa.Value) ([]*Shape, bool) {
	switch s.K {
	case "self":
		if s.Of == phi {
			return []*Shape{konst("")}, true
		}
	case "concat":
		if ps, ok := selfPieces(s.Sub[0], phi); ok {
			var out []*Shape
			for _, p := range ps {
				out = append(out, concat(append([]*Shape{p}, s.Sub[1:]...)...))
			}
			return out, true
		}
	case "alt":
		var out []*Shape
		for _, x := range s.Sub {
			ps, ok := selfPieces(x, phi)
			if !ok {
				return nil, false
			}
			out = append(out, ps...)
		}
		return out, true
	}
	return nil, false
}

func calleeFull(c *ssa.CallCommon) string {
	cal := c.StaticCallee()
	if cal == nil {
		return ""
	}
	if cal.Pkg != nil {
		if cal.Signature.Recv() != nil {
			return fname(cal)
		}
		return cal.Pkg.Pkg.Path() + "." + cal.Name()
	}
	return fname(cal)
}

func (sh *shaper) call(c *ssa.Call) *Shape {
	name := calleeFull(&c.Call)
	args := c.Call.Args
	switch name {
	case "strconv.Itoa", "strconv.FormatInt", "strconv.FormatUint":
		if l := lenArg(args[0]); l != nil {
			return &Shape{K: "lenof", Of: l}
		}
		return &Shape{K: "num", Of: c}
	case "strconv.FormatFloat", "strconv.FormatBool":
		if name == "strconv.FormatFloat" {
			sh.noteViaFloat(args[0])
		}
		return &Shape{K: "num", Of: c}
	case "strconv.Quote":
		return &Shape{K: "quoted", Of: c}
	case "strings.Join":
		sep := sh.of(args[1])
		if sep.K != "const" {
			return unknown("strings.Join with a non-constant separator")
		}
		return &Shape{K: "join", S: sep.S, Sub: []*Shape{sh.sliceElems(args[0])}}
	case "strings.ReplaceAll":
		return sh.replaceAll(c)
	case "(*strings.Replacer).Replace":
		return sh.replacer(c)
	case "fmt.Sprintf":
		return sh.sprintf(c)
	case "fmt.Sprint":
		return &Shape{K: "raw", Of: c}
	case "(*strings.Builder).String":
		return sh.builder(args[0], c)
	case "time.Now", "math/rand.Int", "math/rand.Intn":
		sh.impure = append(sh.impure, name)
	}
	cal := c.Call.StaticCallee()
	if cal != nil && cal.Pkg != nil && cal.Pkg.Pkg.Path() == modPath+"/utils/cast" && (cal.Name() == "ToString" || cal.Name() == "ToStringE") {
		sh.noteNilUse(c, c.Call.Args[0])
		return &Shape{K: "raw", Of: c}
	}
	if cal != nil && sh.a.fnInModule(cal) && cal.Blocks != nil && cal.Signature.Results().Len() >= 1 && isStringType(cal.Signature.Results().At(0).Type()) {
		// the argument expressions are part of the key's provenance (nil tests, purity)
		for _, arg := range c.Call.Args {
			if isStringType(arg.Type()) {
				sh.of(arg)
			}
		}
		return sh.inline(cal)
	}
	if isStringType(c.Type()) {
		return unknown("string result of %s", name)
	}
	return unknown("call %s", name)
}

// replaceAll recognises the escaping idiom ReplaceAll(ReplaceAll(s, E, E+E), c, E+c)...: the
// escape character first, then each protected character. The result is an "esc" shape whose S
// is the escape character followed by the protected characters.
func (sh *shaper) replaceAll(c *ssa.Call) *Shape {
	type rep struct{ old, new string }
	var chain []rep
	var inner ssa.Value = c
	for {
		cc, ok := inner.(*ssa.Call)
		if !ok || calleeFull(&cc.Call) != "strings.ReplaceAll" {
			break
		}
		o, n := sh.of(cc.Call.Args[1]), sh.of(cc.Call.Args[2])
		if o.K != "const" || n.K != "const" {
			return unknown("ReplaceAll with non-constant arguments")
		}
		chain = append([]rep{{o.S, n.S}}, chain...)
		inner = cc.Call.Args[0]
	}
	if len(chain) == 0 {
		return unknown("ReplaceAll chain not recognised")
	}
	sh.of(inner) // the escaped text's provenance: nil tests and purity are judged on it
	e := chain[0].old
	if len(e) != 1 || chain[0].new != e+e {
		return &Shape{K: "raw", Of: c} // a replacement that is not an escaping scheme: still arbitrary text
	}
	set := e
	for _, r := range chain[1:] {
		if len(r.old) != 1 || r.new != e+r.old || strings.Contains(set, r.old) {
			return &Shape{K: "raw", Of: c}
		}
		set += r.old
	}
	return &Shape{K: "esc", S: set, Of: c}
}

// escProducible: can the escaping scheme (escape char set[0], protected chars set) output text t?
func escProducible(t, set string) bool {
	if set == "" {
		return true
	}
	e := set[0]
	for i := 0; i < len(t); i++ {
		if t[i] == e {
			if i+1 >= len(t) || !strings.ContainsRune(set, rune(t[i+1])) {
				return false
			}
			i++
			continue
		}
		if strings.ContainsRune(set, rune(t[i])) {
			return false // a protected character can only appear escaped
		}
	}
	return true
}

// lenArg: v is (a conversion of) len(x): returns x.
func lenArg(v ssa.Value) ssa.Value {
	for {
		switch x := v.(type) {
		case *ssa.Convert:
			v = x.X
			continue
		case *ssa.Call:
			if cc, ok := isBuiltinCall(x, "len"); ok {
				return cc.Args[0]
			}
		}
		return nil
	}
}

// replacer: r.Replace(s) with r = strings.NewReplacer(E, E+E, c, E+c, …) over one-byte constants - written at the call
// or kept in a package-level variable that is stored once, in init. A Replacer substitutes at each position of
// the argument, without rescanning what it wrote, so with one-byte patterns it is the simultaneous per-byte escaping.
func (sh *shaper) replacer(c *ssa.Call) *Shape {
	r := c.Call.Args[0]
	var mk *ssa.Call
	switch x := r.(type) {
	case *ssa.Call:
		mk = x
	case *ssa.UnOp:
		g, ok := x.X.(*ssa.Global)
		if !ok || x.Op != token.MUL || g.Pkg == nil {
			return unknown("Replacer of unknown origin")
		}
		n := 0
		for _, m := range g.Pkg.Members {
			fn, ok := m.(*ssa.Function)
			if !ok {
				continue
			}
			fns := append([]*ssa.Function{fn}, fn.AnonFuncs...)
			for _, f := range fns {
				allInstrs(f, func(in ssa.Instruction) {
					if st, ok := in.(*ssa.Store); ok && st.Addr == ssa.Value(g) {
						n++
						mk, _ = st.Val.(*ssa.Call)
						if f.Name() != "init" {
							n += 100 // reassigned at run time
						}
					}
				})
			}
		}
		if n != 1 {
			return unknown("the Replacer variable %s is not set exactly once, in init", g.Name())
		}
	}
	if mk == nil || calleeFull(&mk.Call) != "strings.NewReplacer" || len(mk.Call.Args) != 1 {
		return unknown("Replacer of unknown origin")
	}
	sl, ok := mk.Call.Args[0].(*ssa.Slice)
	if !ok {
		return unknown("NewReplacer with a non-literal argument list")
	}
	al, ok := sl.X.(*ssa.Alloc)
	if !ok {
		return unknown("NewReplacer with a non-literal argument list")
	}
	pairs := map[int64]string{}
	for _, ref := range *al.Referrers() {
		ia, ok := ref.(*ssa.IndexAddr)
		if !ok {
			continue
		}
		ik, ok := ia.Index.(*ssa.Const)
		if !ok {
			return unknown("NewReplacer with a non-literal argument list")
		}
		for _, rr := range *ia.Referrers() {
			if st, ok := rr.(*ssa.Store); ok && st.Addr == ssa.Value(ia) {
				v := sh.of(st.Val)
				if v.K != "const" {
					return unknown("NewReplacer with non-constant arguments")
				}
				pairs[ik.Int64()] = v.S
			}
		}
	}
	n := int64(len(pairs))
	if n == 0 || n%2 != 0 {
		return unknown("NewReplacer with an odd argument list")
	}
	sh.of(c.Call.Args[1]) // provenance of the escaped text
	esc, set := "", ""
	for i := int64(0); i < n; i += 2 {
		o, w := pairs[i], pairs[i+1]
		if len(o) != 1 || len(w) != 2 || w[1] != o[0] || strings.Contains(set, o) {
			return &Shape{K: "raw", Of: c}
		}
		if esc == "" {
			esc = w[:1]
		}
		if w[:1] != esc {
			return &Shape{K: "raw", Of: c}
		}
		set += o
	}
	if !strings.Contains(set, esc) {
		return &Shape{K: "raw", Of: c} // the escape byte itself is not escaped
	}
	return &Shape{K: "esc", S: esc + strings.Replace(set, esc, "", 1), Of: c}
}

// inline returns the alternatives over the string results of fn's return sites.
func (sh *shaper) inline(fn *ssa.Function) *Shape {
	for _, c := range sh.callers {
		if c == fn {
			return unknown("recursive encoder %s", fname(fn))
		}
	}
	sh.callers = append(sh.callers, fn)
	defer func() { sh.callers = sh.callers[:len(sh.callers)-1] }()
	sh.scanPurity(fn)
	var alts []*Shape
	for _, b := range fn.Blocks {
		if ret, ok := b.Instrs[len(b.Instrs)-1].(*ssa.Return); ok && len(ret.Results) > 0 {
			if p, isParam := ret.Results[0].(*ssa.Parameter); isParam && isStringType(p.Type()) {
				if chars := freeOfChars(b, p); chars != "" {
					// fast path: the value is returned unchanged because it contains none of chars
					alts = append(alts, &Shape{K: "esc", S: chars, Why: "free", Of: p})
					continue
				}
			}
			alts = append(alts, sh.of(ret.Results[0]))
		}
	}
	return mergeFree(alt(alts...))
}

// freeOfChars: block b is reached only when strings.ContainsAny(p, chars) (constant chars) was false.
func freeOfChars(b *ssa.BasicBlock, p *ssa.Parameter) string {
	for _, g := range guardsOf(b) {
		v := g.Cond
		sense := g.Sense
		for {
			if u, ok := v.(*ssa.UnOp); ok && u.Op == token.NOT {
				v = u.X
				sense = !sense
				continue
			}
			break
		}
		if bo, ok := v.(*ssa.BinOp); ok {
			// the scan index reached the end: i == len(p) / i >= len(p) / !(i < len(p)) with s[:i] free of chars;
			// strings.IndexAny(p, chars) < 0 / == -1
			x, y, op := bo.X, bo.Y, bo.Op
			if !sense {
				switch op {
				case token.LSS:
					op, sense = token.GEQ, true
				case token.NEQ:
					op, sense = token.EQL, true
				}
			}
			if sense && (op == token.EQL || op == token.GEQ) && lenArg(y) == ssa.Value(p) {
				if src, chars := cleanPrefixIdx(x); src == ssa.Value(p) && chars != "" {
					if _, isCall := x.(*ssa.Call); !isCall {
						return chars
					}
				}
			}
			if k, isK := y.(*ssa.Const); isK && sense && k.Value != nil && k.Value.Kind() == constant.Int {
				if ((op == token.LSS && k.Int64() == 0) || (op == token.EQL && k.Int64() == -1)) && isIndexAnyOf(x, p) != "" {
					return isIndexAnyOf(x, p)
				}
			}
			continue
		}
		c, ok := v.(*ssa.Call)
		if !ok || sense || len(c.Call.Args) != 2 || c.Call.Args[0] != ssa.Value(p) {
			continue
		}
		if n := calleeFull(&c.Call); n != "strings.ContainsAny" {
			continue
		}
		// the character set may be a constant or a concatenation of constants
		if k, ok := c.Call.Args[1].(*ssa.Const); ok && k.Value != nil && k.Value.Kind() == constant.String {
			return constant.StringVal(k.Value)
		}
	}
	return ""
}

// mergeFree: an alternative "returned unchanged because it contains none of C" is the identity case
// of an escaping scheme whose protected set is within C.
func mergeFree(s *Shape) *Shape {
	if s.K != "alt" {
		return s
	}
	var real *Shape
	for _, x := range s.Sub {
		if x.K == "esc" && x.Why != "free" {
			real = x
		}
	}
	if real == nil {
		return s
	}
	var out []*Shape
	for _, x := range s.Sub {
		if x.K == "esc" && x.Why == "free" {
			covered := true
			for i := 0; i < len(real.S); i++ {
				if !strings.ContainsRune(x.S, rune(real.S[i])) {
					covered = false
				}
			}
			if covered {
				continue
			}
		}
		out = append(out, x)
	}
	if len(out) == 1 {
		return out[0]
	}
	return &Shape{K: "alt", Sub: out}
}

func (sh *shaper) scanPurity(fn *ssa.Function) {
	allInstrs(fn, func(in ssa.Instruction) {
		switch x := in.(type) {
		case *ssa.Range:
			if _, ok := x.X.Type().Underlying().(*types.Map); ok {
				sh.impure = append(sh.impure, "iterates over a map at "+sh.a.pos(x.Pos()))
			}
		case *ssa.Call:
			n := calleeFull(&x.Call)
			if n == "time.Now" || strings.HasPrefix(n, "math/rand.") {
				sh.impure = append(sh.impure, n+" at "+sh.a.pos(x.Pos()))
			}
		}
	})
}

func (sh *shaper) sprintf(c *ssa.Call) *Shape {
	f := sh.of(c.Call.Args[0])
	if f.K != "const" {
		return unknown("Sprintf with a non-constant format")
	}
	var parts []*Shape
	lit := ""
	format := f.S
	for i := 0; i < len(format); i++ {
		if format[i] != '%' {
			lit += string(format[i])
			continue
		}
		i++
		if i >= len(format) {
			break
		}
		if format[i] == '%' {
			lit += "%"
			continue
		}
		// skip flags/width
		for i < len(format) && strings.ContainsRune("+-# 0123456789.", rune(format[i])) {
			i++
		}
		if i >= len(format) {
			break
		}
		if lit != "" {
			parts = append(parts, konst(lit))
			lit = ""
		}
		switch format[i] {
		case 'd', 'x', 'X', 'o', 'b', 'f', 'g', 'e', 't':
			parts = append(parts, &Shape{K: "num", Of: c})
		case 'T':
			parts = append(parts, &Shape{K: "typename", Of: c})
		case 'q':
			parts = append(parts, &Shape{K: "quoted", Of: c})
		case 'p':
			sh.impure = append(sh.impure, "%p in a key format")
			parts = append(parts, &Shape{K: "raw", Of: c})
		default:
			parts = append(parts, &Shape{K: "raw", Of: c})
		}
	}
	if lit != "" {
		parts = append(parts, konst(lit))
	}
	// the variadic arguments are interface values rendered into the key
	if len(c.Call.Args) == 2 {
		if sl, ok := c.Call.Args[1].(*ssa.Slice); ok {
			if al, ok := sl.X.(*ssa.Alloc); ok {
				for _, r := range *al.Referrers() {
					if ia, ok := r.(*ssa.IndexAddr); ok {
						for _, rr := range *ia.Referrers() {
							if st, ok := rr.(*ssa.Store); ok && st.Addr == ssa.Value(ia) {
								sh.noteNilUse(c, st.Val)
							}
						}
					}
				}
			}
		}
	}
	return concat(parts...)
}

// noteNilUse records that interface value x is rendered as key text at instruction at.
func (sh *shaper) noteNilUse(at ssa.Instruction, x ssa.Value) {
	for {
		if mi, ok := x.(*ssa.MakeInterface); ok {
			// a concrete non-interface value boxed for the call cannot be nil
			if _, isIface := mi.X.Type().Underlying().(*types.Interface); !isIface {
				return
			}
			x = mi.X
			continue
		}
		break
	}
	if _, isIface := x.Type().Underlying().(*types.Interface); !isIface {
		return
	}
	sh.nilUses = append(sh.nilUses, nilUse{at, x})
}

// nilGuarded: the instruction is reached only when x (same access path) was tested non-nil, or x is
// the subject of a type switch / assertion whose nil case was taken elsewhere.
func nilGuarded(at ssa.Instruction, x ssa.Value) bool {
	xs := TermOf(x, nil).String()
	for _, g := range guardsOf(at.Block()) {
		v := g.Cond
		sense := g.Sense
		for {
			if u, ok := v.(*ssa.UnOp); ok && u.Op == token.NOT {
				v = u.X
				sense = !sense
				continue
			}
			break
		}
		bo, ok := v.(*ssa.BinOp)
		if !ok || !(bo.Op == token.EQL || bo.Op == token.NEQ) {
			continue
		}
		k, isK := bo.Y.(*ssa.Const)
		if !isK || k.Value != nil {
			continue
		}
		if TermOf(bo.X, nil).String() != xs {
			continue
		}
		if (bo.Op == token.NEQ) == sense {
			return true
		}
	}
	return false
}

// noteViaFloat: f, about to be rendered as key text, is cast.ToFloat64(v) / cast.ToFloat64E(v) of an interface value.
// float64 has 53 bits: two different int64/uint64 values above 2^53 widen to the same float and so to the same key
// text, unless the 64-bit integer types were taken by earlier cases of the type switch.
func (sh *shaper) noteViaFloat(f ssa.Value) {
	if ex, ok := f.(*ssa.Extract); ok && ex.Index == 0 {
		f = ex.Tuple
	}
	c, ok := f.(*ssa.Call)
	if !ok {
		return
	}
	cal := c.Call.StaticCallee()
	if cal == nil || cal.Pkg == nil || cal.Pkg.Pkg.Path() != modPath+"/utils/cast" || (cal.Name() != "ToFloat64" && cal.Name() != "ToFloat64E") || len(c.Call.Args) != 1 {
		return
	}
	if _, isIface := c.Call.Args[0].Type().Underlying().(*types.Interface); !isIface {
		return
	}
	sh.viaFloat = append(sh.viaFloat, nilUse{c, c.Call.Args[0]})
}

// typesExcludedAt: the dynamic types x cannot have in block b: the cases of a type switch (or `_, ok := x.(T)` tests)
// that were not taken on the way.
func typesExcludedAt(b *ssa.BasicBlock, x ssa.Value) map[string]bool {
	xs := TermOf(x, nil).String()
	out := map[string]bool{}
	for _, g := range guardsOf(b) {
		v, sense := g.Cond, g.Sense
		for {
			u, ok := v.(*ssa.UnOp)
			if !ok || u.Op != token.NOT {
				break
			}
			v, sense = u.X, !sense
		}
		ex, ok := v.(*ssa.Extract)
		if !ok || ex.Index != 1 || sense {
			continue
		}
		ta, ok := ex.Tuple.(*ssa.TypeAssert)
		if !ok || !ta.CommaOk || (ta.X != x && TermOf(ta.X, nil).String() != xs) {
			continue
		}
		out[ta.AssertedType.String()] = true
	}
	return out
}

func (sh *shaper) nilProblems(probs *[]keyProblem) {
	for _, u := range sh.viaFloat {
		ex := typesExcludedAt(u.at.Block(), u.x)
		var open []string
		for _, t := range []string{"int", "int64", "uint", "uint64"} {
			if !ex[t] {
				open = append(open, t)
			}
		}
		if len(open) > 0 {
			*probs = append(*probs, keyProblem{fmt.Sprintf("two different values share one key text: %s is widened to float64 at %s and then rendered, and a value of type %s can reach that point; float64 has 53 bits", TermOf(u.x, nil), sh.a.pos(u.at.Pos()), strings.Join(open, "/")),
				open[len(open)-1] + " 9007199254740992 and 9007199254740993"})
		}
	}
	seen := map[ssa.Instruction]bool{}
	for _, u := range sh.nilUses {
		if seen[u.at] {
			continue
		}
		if !nilGuarded(u.at, u.x) {
			seen[u.at] = true
			*probs = append(*probs, keyProblem{fmt.Sprintf("two alternatives of a key component cannot be told apart: the value %s is rendered as text at %s without a preceding nil test, so an explicit NULL becomes the text of the empty/\"<nil>\" string", TermOf(u.x, nil), sh.a.pos(u.at.Pos())),
				"an explicit NULL value and the string it is rendered as (\"\" for cast.ToString, \"<nil>\" for %v) encode to the same key"})
		}
	}
}

// sliceElems: the alternatives of the strings stored into a []string built in the function.
func (sh *shaper) sliceElems(v ssa.Value) *Shape {
	seen := map[ssa.Value]bool{}
	var elems []*Shape
	var rec func(v ssa.Value)
	rec = func(v ssa.Value) {
		if seen[v] {
			return
		}
		seen[v] = true
		switch x := v.(type) {
		case *ssa.Phi:
			for _, e := range x.Edges {
				rec(e)
			}
		case *ssa.Call:
			if cc, ok := isBuiltinCall(x, "append"); ok {
				rec(cc.Args[0])
				for _, e := range appendedElems(cc) {
					elems = append(elems, sh.of(e))
				}
				if len(cc.Args) == 2 && appendedElems(cc) == nil {
					elems = append(elems, unknown("append of another slice"))
				}
			} else {
				elems = append(elems, unknown("slice from call"))
			}
		case *ssa.MakeSlice:
			// elements stored by index
			for _, r := range *x.Referrers() {
				if ia, ok := r.(*ssa.IndexAddr); ok {
					for _, rr := range *ia.Referrers() {
						if st, ok := rr.(*ssa.Store); ok && st.Addr == ia {
							elems = append(elems, sh.of(st.Val))
						}
					}
				}
			}
		case *ssa.Slice:
			rec(x.X)
		case *ssa.Alloc:
			// make with constant size lowers to new [n]T + slice
			for _, r := range *x.Referrers() {
				if ia, ok := r.(*ssa.IndexAddr); ok {
					for _, rr := range *ia.Referrers() {
						if st, ok := rr.(*ssa.Store); ok && st.Addr == ia {
							elems = append(elems, sh.of(st.Val))
						}
					}
				}
			}
		case *ssa.Const:
		default:
			elems = append(elems, unknown("slice of unknown origin %T", v))
		}
	}
	rec(v)
	if len(elems) == 0 {
		return unknown("no elements found for the joined slice")
	}
	return alt(elems...)
}

type iterAlt struct {
	sh    *Shape
	conds []Guard
}

// byteConst: the value of a constant byte expression: 'x', or "…"[k] over constants.
func byteConst(v ssa.Value) (byte, bool) {
	for {
		switch x := v.(type) {
		case *ssa.Convert:
			v = x.X
			continue
		case *ssa.ChangeType:
			v = x.X
			continue
		case *ssa.Const:
			if x.Value != nil && x.Value.Kind() == constant.Int {
				if i, ok := constant.Int64Val(x.Value); ok && i >= 0 && i < 256 {
					return byte(i), true
				}
			}
		case *ssa.Index:
			sk, ok1 := x.X.(*ssa.Const)
			ik, ok2 := x.Index.(*ssa.Const)
			if ok1 && ok2 && sk.Value != nil && sk.Value.Kind() == constant.String && ik.Value != nil && ik.Value.Kind() == constant.Int {
				str := constant.StringVal(sk.Value)
				if i := ik.Int64(); i >= 0 && int(i) < len(str) {
					return str[i], true
				}
			}
		}
		return 0, false
	}
}

func isIndexAnyOf(v ssa.Value, s ssa.Value) string {
	c, ok := v.(*ssa.Call)
	if !ok || calleeFull(&c.Call) != "strings.IndexAny" || c.Call.Args[0] != s {
		return ""
	}
	if k, ok := c.Call.Args[1].(*ssa.Const); ok && k.Value != nil && k.Value.Kind() == constant.String {
		return constant.StringVal(k.Value)
	}
	return ""
}

// byteTest: cond (with the given truth value) says s[j] != c; returns s, j, c.
func byteExcluded(g Guard) (s, j ssa.Value, c byte, ok bool) {
	v, sense := g.Cond, g.Sense
	for {
		u, isU := v.(*ssa.UnOp)
		if !isU || u.Op != token.NOT {
			break
		}
		v, sense = u.X, !sense
	}
	bo, isB := v.(*ssa.BinOp)
	if !isB || !((bo.Op == token.NEQ && sense) || (bo.Op == token.EQL && !sense)) {
		return nil, nil, 0, false
	}
	x, y := bo.X, bo.Y
	if _, isIdx := x.(*ssa.Index); !isIdx {
		x, y = y, x
	}
	ix, isIdx := x.(*ssa.Index)
	if !isIdx || !isStringType(ix.X.Type()) {
		return nil, nil, 0, false
	}
	k, isK := byteConst(y)
	if !isK {
		return nil, nil, 0, false
	}
	return ix.X, ix.Index, k, true
}

// cleanPrefixIdx: v is an index into the string s such that s[:v] contains none of chars, for every value v takes:
// the counter of a scan `for i < len(s) && s[i] != a && s[i] != b { i++ }` (phi [0, i+1] whose increment is reached
// only under s[i] != a, s[i] != b - the invariant holds at 0 and is kept by every increment), or
// strings.IndexAny(s, chars) (where it is non-negative, which slicing with it requires).
func cleanPrefixIdx(v ssa.Value) (ssa.Value, string) {
	if c, ok := v.(*ssa.Call); ok && calleeFull(&c.Call) == "strings.IndexAny" {
		if chars := isIndexAnyOf(v, c.Call.Args[0]); chars != "" {
			return c.Call.Args[0], chars
		}
		return nil, ""
	}
	phi, ok := v.(*ssa.Phi)
	if !ok || len(phi.Edges) != 2 {
		return nil, ""
	}
	var latch *ssa.BasicBlock
	for i, e := range phi.Edges {
		pred := phi.Block().Preds[i]
		if k, isK := e.(*ssa.Const); isK {
			if k.Value == nil || k.Value.Kind() != constant.Int || k.Int64() != 0 || reachesAvoiding2(phi.Block(), pred) {
				return nil, ""
			}
			continue
		}
		bo, isB := e.(*ssa.BinOp)
		if !isB || bo.Op != token.ADD || bo.X != ssa.Value(phi) {
			return nil, ""
		}
		if k, isK := bo.Y.(*ssa.Const); !isK || k.Value == nil || k.Value.Kind() != constant.Int || k.Int64() != 1 {
			return nil, ""
		}
		latch = bo.Block()
		if latch != pred && !latch.Dominates(pred) {
			return nil, ""
		}
	}
	if latch == nil {
		return nil, ""
	}
	var src ssa.Value
	chars := ""
	for _, g := range guardsOf(latch) {
		s, j, c, ok := byteExcluded(g)
		if !ok || j != ssa.Value(phi) {
			continue
		}
		if src != nil && src != s {
			return nil, ""
		}
		src = s
		if !strings.ContainsRune(chars, rune(c)) {
			chars += string(rune(c))
		}
	}
	return src, chars
}

// byteEscapeLoop recognises the single-pass escaper written by hand:
//
//	for ; j < len(s); j++ { if c := s[j]; c == E || c == sep { b.WriteByte(E) }; b.WriteByte(s[j]) }
//
// Every path through one iteration writes s[j], alone or after the one-byte constant E; the paths that write it
// alone are taken only for bytes outside a set that contains E; j visits start..len(s)-1 and the loop is left
// only at j == len(s); start is 0, or the index i of a scan whose prefix s[:i] is free of the set and has just been
// written (the last of pre). Then the text is s with each byte of the set - and possibly others - preceded by E and E
// itself always escaped, which the usual reader (E: take the next byte literally) inverts: ESC(E + set).
func (sh *shaper) byteEscapeLoop(header *ssa.BasicBlock, loopBlocks map[*ssa.BasicBlock]bool, alts []iterAlt, pre []*Shape) (*Shape, int) {
	if len(alts) == 0 {
		return nil, 0
	}
	var src, j ssa.Value
	esc := ""
	var set map[byte]bool
	for _, a := range alts {
		var by *Shape
		switch {
		case a.sh.K == "byte":
			by = a.sh
		case a.sh.K == "concat" && len(a.sh.Sub) == 2 && a.sh.Sub[0].K == "const" && len(a.sh.Sub[0].S) == 1 && a.sh.Sub[1].K == "byte":
			by = a.sh.Sub[1]
			if esc != "" && esc != a.sh.Sub[0].S {
				return nil, 0
			}
			esc = a.sh.Sub[0].S
		default:
			return nil, 0
		}
		ix := by.Of.(*ssa.Index)
		if (src != nil && src != ix.X) || (j != nil && j != ix.Index) {
			return nil, 0
		}
		src, j = ix.X, ix.Index
		if a.sh.K == "byte" {
			ex := map[byte]bool{}
			for _, g := range a.conds {
				if s, jj, c, ok := byteExcluded(g); ok && s == src && jj == j {
					ex[c] = true
				}
			}
			if set == nil {
				set = ex
			} else {
				for c := range set {
					if !ex[c] {
						delete(set, c)
					}
				}
			}
		}
	}
	if esc == "" || set == nil || !set[esc[0]] {
		return nil, 0
	}
	// j counts from start in steps of one
	phi, ok := j.(*ssa.Phi)
	if !ok || phi.Block() != header {
		return nil, 0
	}
	var start ssa.Value
	for i, e := range phi.Edges {
		if loopBlocks[header.Preds[i]] {
			bo, isB := e.(*ssa.BinOp)
			if !isB || bo.Op != token.ADD || bo.X != ssa.Value(phi) {
				return nil, 0
			}
			if k, isK := bo.Y.(*ssa.Const); !isK || k.Value == nil || k.Value.Kind() != constant.Int || k.Int64() != 1 {
				return nil, 0
			}
		} else if start != nil {
			return nil, 0
		} else {
			start = e
		}
	}
	if start == nil {
		return nil, 0
	}
	// the loop is left only when j has reached len(s)
	for b := range loopBlocks {
		for si, sc := range b.Succs {
			if loopBlocks[sc] {
				continue
			}
			iff, isIf := b.Instrs[len(b.Instrs)-1].(*ssa.If)
			if !isIf {
				return nil, 0
			}
			bo, isB := iff.Cond.(*ssa.BinOp)
			if !isB || bo.X != j || lenArg(bo.Y) != src {
				return nil, 0
			}
			if !((bo.Op == token.LSS && si == 1) || (bo.Op == token.GEQ && si == 0) || (bo.Op == token.NEQ && si == 1) || (bo.Op == token.EQL && si == 0)) {
				return nil, 0
			}
		}
	}
	chars := esc
	var rest []int
	for c := range set {
		if c != esc[0] {
			rest = append(rest, int(c))
		}
	}
	sort.Ints(rest)
	for _, c := range rest {
		chars += string(rune(c))
	}
	used := 0
	if !isZeroConst(start) {
		s0, free := cleanPrefixIdx(start)
		if s0 != src || len(pre) == 0 {
			return nil, 0
		}
		last := pre[len(pre)-1]
		sl, isSl := last.Of.(*ssa.Slice)
		if last.K != "esc" || last.Why != "free-prefix" || !isSl || sl.X != src || sl.High != start {
			return nil, 0
		}
		for c := range set {
			if !strings.ContainsRune(free, rune(c)) {
				return nil, 0
			}
		}
		used = 1
	}
	sh.of(src)
	return &Shape{K: "esc", S: chars, Of: j}, used
}

// notFirstIterationBranch: cond is `i > 0`, `i != 0`, `i >= 1`, `0 < i` (or the negations `i == 0`, `i < 1`) over the
// zero-based iteration counter i of the loop made of loopBlocks; the result is the index of the successor taken in
// every iteration but the first, or -1 when cond is not such a test.
func notFirstIterationBranch(cond ssa.Value, loopBlocks map[*ssa.BasicBlock]bool) int {
	neg := false
	for {
		u, ok := cond.(*ssa.UnOp)
		if !ok || u.Op != token.NOT {
			break
		}
		neg = !neg
		cond = u.X
	}
	bo, ok := cond.(*ssa.BinOp)
	if !ok {
		return -1
	}
	x, y, op := bo.X, bo.Y, bo.Op
	if _, isC := x.(*ssa.Const); isC {
		x, y = y, x
		switch op {
		case token.LSS:
			op = token.GTR
		case token.LEQ:
			op = token.GEQ
		case token.GTR:
			op = token.LSS
		case token.GEQ:
			op = token.LEQ
		}
	}
	k, ok := y.(*ssa.Const)
	if !ok || k.Value == nil || k.Value.Kind() != constant.Int || !isIterationCounter(x, loopBlocks) {
		return -1
	}
	n := k.Int64()
	later := -1
	switch {
	case (op == token.GTR || op == token.NEQ) && n == 0, op == token.GEQ && n == 1:
		later = 0
	case op == token.EQL && n == 0, op == token.LSS && n == 1, op == token.LEQ && n == 0:
		later = 1
	default:
		return -1
	}
	if neg {
		later = 1 - later
	}
	return later
}

// isIterationCounter: v counts the iterations of the loop from zero: `for i := 0; …; i++` (phi [0, i+1]) or the
// index of a range over a slice (go/ssa: phi [-1, t] with t = phi + 1, and t is the index seen by the body).
func isIterationCounter(v ssa.Value, loopBlocks map[*ssa.BasicBlock]bool) bool {
	plusOne := func(b ssa.Value, of ssa.Value) bool {
		bo, ok := b.(*ssa.BinOp)
		if !ok || bo.Op != token.ADD {
			return false
		}
		k, ok := bo.Y.(*ssa.Const)
		return ok && bo.X == of && k.Value != nil && k.Value.Kind() == constant.Int && k.Int64() == 1
	}
	counter := func(phi *ssa.Phi, start int64, next func(e ssa.Value) bool) bool {
		if !loopBlocks[phi.Block()] {
			return false
		}
		outside, inside := 0, 0
		for i, e := range phi.Edges {
			if loopBlocks[phi.Block().Preds[i]] {
				if !next(e) {
					return false
				}
				inside++
			} else {
				k, ok := e.(*ssa.Const)
				if !ok || k.Value == nil || k.Value.Kind() != constant.Int || k.Int64() != start {
					return false
				}
				outside++
			}
		}
		return outside == 1 && inside >= 1
	}
	switch x := v.(type) {
	case *ssa.Phi:
		return counter(x, 0, func(e ssa.Value) bool { return plusOne(e, x) })
	case *ssa.BinOp:
		if phi, ok := x.X.(*ssa.Phi); ok && plusOne(x, phi) {
			return counter(phi, -1, func(e ssa.Value) bool { return e == ssa.Value(x) })
		}
	}
	return false
}

// manualJoin: every path through one iteration crosses the first-iteration test exactly once, the later iterations
// write a constant separator followed by exactly what a first iteration can write: that is strings.Join.
func manualJoin(first, later []*Shape, unflagged int) *Shape {
	if unflagged > 0 || len(first) == 0 || len(later) == 0 {
		return nil
	}
	// the constant every later iteration starts with; a literal component merges with it ("|" + `\N`), so the
	// separator is a common prefix of those constants: the longest one that makes the two sets agree
	common := ""
	for i, l := range later {
		head := l
		if l.K == "concat" {
			head = l.Sub[0]
		}
		if head.K != "const" || head.S == "" {
			return nil
		}
		if i == 0 {
			common = head.S
		}
		n := 0
		for n < len(common) && n < len(head.S) && common[n] == head.S[n] {
			n++
		}
		common = common[:n]
	}
	set := func(xs []*Shape) map[string]bool {
		m := map[string]bool{}
		for _, x := range xs {
			m[shapeKey(x)] = true
		}
		return m
	}
	fs := set(first)
	for n := len(common); n >= 1; n-- {
		sep := common[:n]
		var stripped []*Shape
		for _, l := range later {
			head, rest := l, []*Shape(nil)
			if l.K == "concat" {
				head, rest = l.Sub[0], l.Sub[1:]
			}
			stripped = append(stripped, concat(append([]*Shape{konst(head.S[n:])}, rest...)...))
		}
		ls := set(stripped)
		same := len(fs) == len(ls)
		for k := range fs {
			if !ls[k] {
				same = false
			}
		}
		if same {
			return &Shape{K: "join", S: sep, Sub: []*Shape{alt(first...)}}
		}
	}
	return nil
}

// shapeKey distinguishes raw pieces by the value they come from (String() prints them all as RAW).
func shapeKey(s *Shape) string {
	k := s.String()
	if s.K == "raw" || s.K == "lenof" {
		k += fmt.Sprintf("%p", s.Of)
	}
	for _, x := range s.Sub {
		k += "(" + shapeKey(x) + ")"
	}
	return k
}

// ofBytes: shape of a []byte value that is being built as key text. The append-style encoders
// (dst = append(dst, "int|"...); dst = strconv.AppendInt(dst, x, 10); return string(dst)) are read like string
// concatenation: the shape of the destination followed by what is appended. A value memoised through sh.of, so a
// loop-carried buffer is a phi whose back edge is SELF + piece, exactly as for strings.
func (sh *shaper) ofBytes(v ssa.Value) *Shape {
	if !isByteSlice(v.Type()) {
		return unknown("bytes of unknown origin")
	}
	return sh.of(v)
}

func isByteSlice(t types.Type) bool {
	sl, ok := t.Underlying().(*types.Slice)
	if !ok {
		return false
	}
	b, ok := sl.Elem().Underlying().(*types.Basic)
	return ok && (b.Kind() == types.Byte || b.Kind() == types.Uint8)
}

// bytesRewrittenInPlace: fn overwrites bytes of a []byte it has: copy(dst, …) into a byte slice, or b[i] = c.
// (The one-element arrays go/ssa makes for variadic arguments are not buffers.)
func bytesRewrittenInPlace(fn *ssa.Function) string {
	for _, b := range fn.Blocks {
		for _, in := range b.Instrs {
			switch x := in.(type) {
			case *ssa.Call:
				if cc, ok := isBuiltinCall(x, "copy"); ok && len(cc.Args) == 2 && isByteSlice(cc.Args[0].Type()) {
					return "a byte buffer is rewritten in place with copy in " + fname(fn) + ": the text is not the sequence of appends"
				}
			case *ssa.Store:
				ia, ok := x.Addr.(*ssa.IndexAddr)
				if !ok {
					continue
				}
				if isByteSlice(ia.X.Type()) {
					return "a byte of a buffer is overwritten by index in " + fname(fn) + ": the text is not the sequence of appends"
				}
			}
		}
	}
	return ""
}

// bytes1 is of1 for []byte-typed values; nil means "not a form read here".
func (sh *shaper) bytes1(v ssa.Value) *Shape {
	if in, ok := v.(ssa.Instruction); ok && in.Parent() != nil {
		if why := bytesRewrittenInPlace(in.Parent()); why != "" {
			// append-only reading is wrong when bytes already written are moved or overwritten
			return unknown("%s", why)
		}
	}
	switch x := v.(type) {
	case *ssa.Const:
		if x.Value == nil {
			return konst("") // nil slice
		}
	case *ssa.Slice:
		// buf[:0] - an empty destination over scratch storage, whatever that storage holds
		if x.High != nil && isZeroConst(x.High) && (x.Low == nil || isZeroConst(x.Low)) {
			return konst("")
		}
		if x.Low == nil && x.High == nil && isByteSlice(x.X.Type()) {
			return sh.of(x.X)
		}
	case *ssa.MakeSlice:
		if isZeroConst(x.Len) {
			return konst("")
		}
	case *ssa.Convert:
		if isStringType(x.X.Type()) {
			return sh.of(x.X)
		}
	case *ssa.ChangeType:
		return sh.of(x.X)
	case *ssa.Call:
		if cc, ok := isBuiltinCall(x, "append"); ok && len(cc.Args) >= 1 {
			base := sh.of(cc.Args[0])
			if len(cc.Args) == 1 {
				return base
			}
			if isStringType(cc.Args[1].Type()) {
				return concat(base, sh.of(cc.Args[1]))
			}
			if els := appendedElems(cc); els != nil {
				parts := []*Shape{base}
				for _, e := range els {
					if _, isC := e.(*ssa.Const); isC {
						parts = append(parts, sh.of(e))
					} else {
						parts = append(parts, &Shape{K: "raw", Of: e}) // one byte of unknown value
					}
				}
				return concat(parts...)
			}
			return concat(base, sh.of(cc.Args[1]))
		}
		switch calleeFull(&x.Call) {
		case "strconv.AppendInt", "strconv.AppendUint":
			if l := lenArg(x.Call.Args[1]); l != nil {
				return concat(sh.of(x.Call.Args[0]), &Shape{K: "lenof", Of: l})
			}
			return concat(sh.of(x.Call.Args[0]), &Shape{K: "num", Of: x})
		case "strconv.AppendFloat", "strconv.AppendBool":
			if len(x.Call.Args) > 1 {
				sh.noteViaFloat(x.Call.Args[1])
			}
			return concat(sh.of(x.Call.Args[0]), &Shape{K: "num", Of: x})
		case "strconv.AppendQuote", "strconv.AppendQuoteToASCII":
			return concat(sh.of(x.Call.Args[0]), &Shape{K: "quoted", Of: x})
		}
	}
	return nil
}


// builder: the writes to a strings.Builder local, in block order; writes inside a loop form a repetition.
func (sh *shaper) builder(recv ssa.Value, at *ssa.Call) *Shape {
	al, ok := recv.(*ssa.Alloc)
	if !ok {
		return unknown("strings.Builder that is not a local")
	}
	fn := at.Parent()
	type wr struct {
		b  *ssa.BasicBlock
		sh *Shape
	}
	var writes []wr
	for _, b := range fn.Blocks {
		for _, in := range b.Instrs {
			c, ok := in.(*ssa.Call)
			if !ok || len(c.Call.Args) == 0 || c.Call.Args[0] != ssa.Value(al) {
				continue
			}
			switch calleeFull(&c.Call) {
			case "(*strings.Builder).WriteString":
				writes = append(writes, wr{b, sh.of(c.Call.Args[1])})
			case "(*strings.Builder).WriteByte":
				writes = append(writes, wr{b, sh.of(c.Call.Args[1])})
			case "(*strings.Builder).WriteRune":
				writes = append(writes, wr{b, sh.of(c.Call.Args[1])})
			case "(*strings.Builder).Write":
				writes = append(writes, wr{b, sh.ofBytes(c.Call.Args[1])})
			case "(*strings.Builder).String", "(*strings.Builder).Len", "(*strings.Builder).Grow":
			default:
				writes = append(writes, wr{b, unknown("builder passed to %s", calleeFull(&c.Call))})
			}
		}
	}
	inLoop := func(b *ssa.BasicBlock) bool { return reachesAvoiding2(b, b) }
	var pre, post []*Shape
	loopBlocks := map[*ssa.BasicBlock]bool{}
	byBlock := map[*ssa.BasicBlock][]*Shape{}
	seenLoop := false
	for _, w := range writes {
		if inLoop(w.b) {
			seenLoop = true
			byBlock[w.b] = append(byBlock[w.b], w.sh)
		} else if !seenLoop {
			pre = append(pre, w.sh)
		} else {
			post = append(post, w.sh)
		}
	}
	parts := append([]*Shape{}, pre...)
	if seenLoop {
		// the loop the writes sit in: all blocks on a cycle with a writing block; one header (the block
		// entered from outside)
		for _, b := range fn.Blocks {
			if !inLoop(b) {
				continue
			}
			for wb := range byBlock {
				if b == wb || (reachesAvoiding2(b, wb) && reachesAvoiding2(wb, b)) {
					loopBlocks[b] = true
				}
			}
		}
		var header *ssa.BasicBlock
		for b := range loopBlocks {
			for _, p := range b.Preds {
				if !loopBlocks[p] {
					if header != nil && header != b {
						return unknown("builder written in a loop with several entries")
					}
					header = b
				}
			}
		}
		if header == nil {
			return unknown("builder written in a loop whose header was not found")
		}
		// what one iteration writes: the writes of the blocks on each path from the header back to it
		var alts []*Shape
		// the hand-written join: `if i > 0 { sb.WriteString(sep) }` with i the iteration counter. Each path
		// through one iteration is classified by the branch it takes at that test: first (i == 0) or later.
		var firstAlts, laterAlts []*Shape
		var decided []iterAlt // every alternative with the branch decisions taken on its path
		var decisions []Guard
		unflagged := 0
		flag := 0 // 0: test not crossed on this path, 1: first iteration, 2: later iteration, 3: crossed twice
		npaths := 0
		bad := ""
		onPath := map[*ssa.BasicBlock]bool{}
		var cur []*Shape
		var dfs func(b *ssa.BasicBlock)
		dfs = func(b *ssa.BasicBlock) {
			if bad != "" {
				return
			}
			onPath[b] = true
			n := len(cur)
			cur = append(cur, byBlock[b]...)
			later := -1 // successor index taken when this is not the first iteration
			if iff, ok := b.Instrs[len(b.Instrs)-1].(*ssa.If); ok {
				later = notFirstIterationBranch(iff.Cond, loopBlocks)
			}
			lastIf, _ := b.Instrs[len(b.Instrs)-1].(*ssa.If)
			for si, sc := range b.Succs {
				saved := flag
				nd := len(decisions)
				if lastIf != nil && len(b.Succs) == 2 && b.Succs[0] != b.Succs[1] {
					decisions = append(decisions, Guard{Cond: lastIf.Cond, Sense: si == 0, If: lastIf})
				}
				if later >= 0 {
					nf := 1
					if si == later {
						nf = 2
					}
					if flag != 0 {
						nf = 3
					}
					flag = nf
				}
				switch {
				case sc == header:
					npaths++
					if npaths > 256 {
						bad = "too many paths through the loop that writes the builder"
						break
					}
					one := concat(append([]*Shape{}, cur...)...)
					alts = append(alts, one)
					decided = append(decided, iterAlt{one, append([]Guard{}, decisions...)})
					switch flag {
					case 1:
						firstAlts = append(firstAlts, one)
					case 2:
						laterAlts = append(laterAlts, one)
					default:
						unflagged++
					}
				case !loopBlocks[sc]:
					// leaving the loop: nothing may have been written in this (partial) iteration
					if len(cur) > 0 {
						bad = "the builder is written in an iteration that then leaves the loop"
					}
				case onPath[sc]:
					bad = "builder written in nested loops"
				default:
					dfs(sc)
				}
				flag = saved
				decisions = decisions[:nd]
			}
			cur = cur[:n]
			onPath[b] = false
		}
		dfs(header)
		if bad != "" {
			return unknown("%s", bad)
		}
		if os.Getenv("VERIF_DEBUG") == "keyenc" {
			fmt.Fprintf(os.Stderr, "builder %s: first=%v later=%v unflagged=%d\n", fn.Name(), firstAlts, laterAlts, unflagged)
		}
		if esc, usedPre := sh.byteEscapeLoop(header, loopBlocks, decided, parts); esc != nil {
			parts = append(parts[:len(parts)-usedPre], esc)
		} else if j := manualJoin(firstAlts, laterAlts, unflagged); j != nil {
			parts = append(parts, j)
		} else {
			parts = append(parts, &Shape{K: "rep", Sub: []*Shape{alt(alts...)}})
		}
	}
	parts = append(parts, post...)
	return concat(parts...)
}

// reachesAvoiding2: can b reach itself through at least one edge?
func reachesAvoiding2(from, target *ssa.BasicBlock) bool {
	seen := map[*ssa.BasicBlock]bool{}
	st := append([]*ssa.BasicBlock{}, from.Succs...)
	for len(st) > 0 {
		x := st[len(st)-1]
		st = st[:len(st)-1]
		if x == target {
			return true
		}
		if seen[x] {
			continue
		}
		seen[x] = true
		st = append(st, x.Succs...)
	}
	return false
}

// ---------------------------------------------------------------- decision

type keyProblem struct{ what, witness string }

// frame marks LEN c X sequences as framed units: in a concat, LENOF(v) followed by a constant that
// does not start with a digit, followed by the shape of the same value v.
func (sh *shaper) frame(s *Shape) *Shape {
	switch s.K {
	case "concat":
		var out []*Shape
		sub := s.Sub
		for i := 0; i < len(sub); i++ {
			if sub[i].K == "lenof" && i+2 < len(sub) && sub[i+1].K == "const" && sub[i+1].S != "" && !isDigit(sub[i+1].S[0]) {
				measured := sh.of(sub[i].Of)
				if measured.String() == sub[i+2].String() || sameRaw(sub[i].Of, sub[i+2]) {
					out = append(out, &Shape{K: "framed", Sub: []*Shape{sh.frame(sub[i+2])}, S: sub[i+1].S})
					i += 2
					continue
				}
			}
			out = append(out, sh.frame(sub[i]))
		}
		return &Shape{K: "concat", Sub: out}
	case "alt", "rep", "join":
		c := *s
		c.Sub = nil
		for _, x := range s.Sub {
			c.Sub = append(c.Sub, sh.frame(x))
		}
		return &c
	}
	return s
}

func sameRaw(v ssa.Value, s *Shape) bool { return s.K == "raw" && s.Of == v }
func isDigit(b byte) bool                { return b >= '0' && b <= '9' }

// firstSet describes the possible first bytes of a shape: a literal prefix, a class, or anything.
type firstSet struct {
	lit   string // constant prefix ("" = none)
	class string // digits, num, typename, quote, any, empty
}

func first(s *Shape) []firstSet {
	switch s.K {
	case "const":
		if s.S == "" {
			return []firstSet{{class: "empty"}}
		}
		return []firstSet{{lit: s.S}}
	case "lenof", "framed":
		return []firstSet{{class: "digits"}}
	case "num":
		return []firstSet{{class: "num"}}
	case "typename":
		return []firstSet{{class: "typename"}}
	case "quoted":
		return []firstSet{{class: "quote"}}
	case "raw", "unknown", "self", "esc":
		return []firstSet{{class: "any"}}
	case "concat":
		return first(s.Sub[0])
	case "alt":
		var out []firstSet
		for _, x := range s.Sub {
			out = append(out, first(x)...)
		}
		return out
	case "rep", "join":
		return append(first(s.Sub[0]), firstSet{class: "empty"})
	}
	return []firstSet{{class: "any"}}
}

func classHas(class string, b byte) bool {
	switch class {
	case "digits":
		return isDigit(b)
	case "num":
		return isDigit(b) || strings.IndexByte("+-NIntf.", b) >= 0
	case "typename":
		return b == '*' || b == '[' || b == '_' || (b >= 'a' && b <= 'z') || (b >= 'A' && b <= 'Z')
	case "quote":
		return b == '"'
	case "any":
		return true
	}
	return false
}

func overlap(a, b firstSet) bool {
	if a.class == "empty" || b.class == "empty" {
		return a.class == b.class || a.class == "any" || b.class == "any"
	}
	if a.lit != "" && b.lit != "" {
		return strings.HasPrefix(a.lit, b.lit) || strings.HasPrefix(b.lit, a.lit)
	}
	if a.lit != "" {
		return classHas(b.class, a.lit[0])
	}
	if b.lit != "" {
		return classHas(a.class, b.lit[0])
	}
	if a.class == "any" || b.class == "any" {
		return true
	}
	if a.class == b.class {
		return true
	}
	for c := 0; c < 256; c++ {
		if classHas(a.class, byte(c)) && classHas(b.class, byte(c)) {
			return true
		}
	}
	return false
}

// check decides a framed shape. inSeq: the shape is one component of a repetition/join and must be
// self-delimiting; sep: the separator that follows each component ("" none).
func (sh *shaper) check(s *Shape, inSeq bool, sep string, probs *[]keyProblem) {
	switch s.K {
	case "unknown":
		*probs = append(*probs, keyProblem{"format not recovered: " + s.Why, ""})
	case "rep":
		sh.checkComponent(s.Sub[0], "", probs)
	case "join":
		sh.checkComponent(s.Sub[0], s.S, probs)
	case "concat":
		for _, x := range s.Sub {
			if x.K == "rep" || x.K == "join" || x.K == "alt" || x.K == "unknown" {
				sh.check(x, inSeq, sep, probs)
			}
		}
	case "alt":
		if !inSeq && sh.typeTags {
			sh.checkInjective(s, probs)
		}
		for _, x := range s.Sub {
			sh.check(x, inSeq, sep, probs)
		}
	}
}

// checkComponent: comp is the per-column piece of a repetition; sep the Join separator.
// distribute rewrites concat(a, alt(b,c), d) into alt(concat(a,b,d), concat(a,c,d)) (bounded), so that
// every alternative of a component is a flat sequence of items.
func distribute(s *Shape) []*Shape {
	switch s.K {
	case "alt":
		var out []*Shape
		for _, x := range s.Sub {
			out = append(out, distribute(x)...)
		}
		return out
	case "concat":
		res := []*Shape{konst("")}
		for _, it := range s.Sub {
			var alts []*Shape
			if it.K == "alt" || it.K == "concat" {
				alts = distribute(it)
			} else {
				alts = []*Shape{it}
			}
			var next []*Shape
			for _, r := range res {
				for _, al := range alts {
					next = append(next, concatKeep(r, al))
				}
			}
			if len(next) > 64 {
				return []*Shape{s}
			}
			res = next
		}
		return res
	}
	return []*Shape{s}
}

// concatKeep concatenates without merging framed units away.
func concatKeep(a, b *Shape) *Shape {
	var items []*Shape
	for _, x := range []*Shape{a, b} {
		if x.K == "concat" {
			items = append(items, x.Sub...)
		} else if !(x.K == "const" && x.S == "") {
			items = append(items, x)
		}
	}
	if len(items) == 0 {
		return konst("")
	}
	if len(items) == 1 {
		return items[0]
	}
	return &Shape{K: "concat", Sub: items}
}

func (sh *shaper) checkComponent(comp *Shape, sep string, probs *[]keyProblem) {
	branches := distribute(comp)
	// 1. every branch must be self-delimiting: no unframed raw part, unless a separator that the raw
	//    part cannot contain follows — raw strings can contain anything, so an unframed raw fails.
	for _, b := range branches {
		items := []*Shape{b}
		if b.K == "concat" {
			items = b.Sub
		}
		for i, it := range items {
			switch it.K {
			case "raw":
				term := sep
				if i+1 < len(items) && items[i+1].K == "const" {
					term = items[i+1].S
				}
				if term == "" {
					term = "<next component>"
				}
				w := fmt.Sprintf("(%q, %q) and (%q, %q) encode to the same key", "a"+term+"b", "c", "a", "b"+term+"c")
				*probs = append(*probs, keyProblem{fmt.Sprintf("a raw value is written into a multi-column key without length prefix or escaping (delimiter %q can occur inside the value)", term), w})
			case "esc":
				term := sep
				if i+1 < len(items) && items[i+1].K == "const" {
					term = items[i+1].S
				}
				if term == "" || !strings.ContainsRune(it.S, rune(term[0])) {
					*probs = append(*probs, keyProblem{fmt.Sprintf("an escaped component is followed by delimiter %q which its escaping does not protect", term),
						fmt.Sprintf("(%q, %q) and (%q, %q) encode to the same key", "a"+term+"b", "c", "a", "b"+term+"c")})
				}
			case "num", "typename":
				// needs a terminator outside its alphabet
				term := sep
				if i+1 < len(items) && items[i+1].K == "const" {
					term = items[i+1].S
				}
				if term == "" || classHas(it.K, term[0]) {
					*probs = append(*probs, keyProblem{fmt.Sprintf("a %s component is not terminated by a byte outside its alphabet", it.K), ""})
				}
			case "unknown":
				*probs = append(*probs, keyProblem{"format not recovered: " + it.Why, ""})
			case "alt", "rep", "join":
				sh.check(it, true, sep, probs)
			case "framed":
				sh.checkInjective(it.Sub[0], probs)
			}
		}
	}
	// 2. the branches must be told apart by their first bytes
	for i := 0; i < len(branches); i++ {
		for j := i + 1; j < len(branches); j++ {
			if !sh.typeTags && branches[i].K != "const" && branches[j].K != "const" {
				// two value branches: columns hold one scalar type (the property's domain), so only a
				// constant-only (NULL/missing) branch has to be distinguished from the value branches
				continue
			}
			if startsWithTypename(branches[i]) || startsWithTypename(branches[j]) {
				continue // the generic "%T:%v" fallback is reached only for types no earlier case handles
			}
			if bi, bj := branches[i], branches[j]; (bi.K == "const" && bj.K == "esc") || (bi.K == "esc" && bj.K == "const") {
				c, e := bi, bj
				if c.K != "const" {
					c, e = bj, bi
				}
				if escProducible(c.S, e.S) {
					*probs = append(*probs, keyProblem{fmt.Sprintf("two alternatives of a key component cannot be told apart: %s vs %s", bi, bj),
						fmt.Sprintf("NULL/missing and the string value %q encode to the same key", c.S)})
				}
				continue
			}
			if branches[i].K == "esc" && branches[j].K == "esc" {
				continue
			}
			for _, fa := range first(branches[i]) {
				for _, fb := range first(branches[j]) {
					if overlap(fa, fb) {
						w := ""
						if branches[i].K == "const" {
							w = fmt.Sprintf("NULL/missing and the string value %q encode to the same key", branches[i].S)
						} else if branches[j].K == "const" {
							w = fmt.Sprintf("NULL/missing and the string value %q encode to the same key", branches[j].S)
						}
						*probs = append(*probs, keyProblem{fmt.Sprintf("two alternatives of a key component cannot be told apart: %s vs %s", branches[i], branches[j]), w})
						goto next
					}
				}
			}
		next:
		}
	}
}

// checkInjective: inside a framed unit the map value -> string must be injective: alternatives
// distinguished by non-overlapping constant tags; a branch that is only a constant must not be
// producible by a raw branch.
func (sh *shaper) checkInjective(s *Shape, probs *[]keyProblem) {
	if s.K != "alt" {
		if s.K == "unknown" {
			*probs = append(*probs, keyProblem{"format not recovered: " + s.Why, ""})
		}
		return
	}
	// the alternatives written out (`"n:" {"0" | NUM}` is `"n:0" | "n:" NUM`), each once
	var subs []*Shape
	seenAlt := map[string]bool{}
	for _, b := range distribute(s) {
		b = concat(b)
		if k := b.String(); !seenAlt[k] {
			seenAlt[k] = true
			subs = append(subs, b)
		}
	}
	for i := 0; i < len(subs); i++ {
		for j := i + 1; j < len(subs); j++ {
			bi, bj := subs[i], subs[j]
			if !sh.typeTags && bi.K != "const" && bj.K != "const" {
				continue // value branches of different Go types: a column holds one scalar type
			}
			// the generic fallback "%T|%v" is reached only for types no earlier case handles
			if startsWithTypename(bi) || startsWithTypename(bj) {
				continue
			}
			// tag+NUM next to a constant that is itself tag+<number>: the same value class (the constant
			// is one of the numbers, e.g. the normalised zero "n:0"), equal values must share a key
			if sameNumberClass(bi, bj) || sameNumberClass(bj, bi) {
				continue
			}
			for _, fa := range first(bi) {
				for _, fb := range first(bj) {
					if overlap(fa, fb) {
						*probs = append(*probs, keyProblem{fmt.Sprintf("inside a framed component two alternatives overlap: %s vs %s", bi, bj), ""})
					}
				}
			}
		}
	}
}

func startsWithTypename(s *Shape) bool {
	if s.K == "typename" {
		return true
	}
	return s.K == "concat" && s.Sub[0].K == "typename"
}

// keyencRule analyses one encoder function (rel.typ.fn; typ may be "").
func (a *A) keyencRule(rel, typ, fn string, o keyencOpts) {
	var f *ssa.Function
	if typ == "" {
		f = a.Func(rel, fn)
	} else {
		f = a.Method(rel, typ, fn)
	}
	a.keyencFunc(f, 0, o)
}

// keyencFunc: resIdx selects the string result.
func (a *A) keyencFunc(f *ssa.Function, resIdx int, o keyencOpts) {
	sh := &shaper{a: a, memo: map[ssa.Value]*Shape{}, inprog: map[ssa.Value]bool{}, typeTags: o.TypeTags}
	sh.callers = []*ssa.Function{f}
	sh.scanPurity(f)
	var alts []*Shape
	for _, b := range f.Blocks {
		if ret, ok := b.Instrs[len(b.Instrs)-1].(*ssa.Return); ok && len(ret.Results) > resIdx {
			alts = append(alts, sh.of(ret.Results[resIdx]))
		}
	}
	construct := fname(f) + "#key-format"
	if len(alts) == 0 {
		a.Und(construct, f.Pos(), "no string result found")
		return
	}
	var probs []keyProblem
	var shapes []string
	for _, s := range alts {
		fs := sh.frame(s)
		shapes = append(shapes, fs.String())
		sh.check(fs, false, "", &probs)
	}
	for _, imp := range sh.impure {
		probs = append(probs, keyProblem{"the key depends on " + imp + " (equal values could be split)", ""})
	}
	sh.nilProblems(&probs)
	if len(probs) == 0 {
		o := a.Ok(construct, f.Pos(), "uniquely decodable: %s", strings.Join(shapes, "  or  "))
		o.Extra = map[string]any{"format": shapes}
		return
	}
	seen := map[string]bool{}
	for _, p := range probs {
		if seen[p.what] {
			continue
		}
		seen[p.what] = true
		kind := "framing"
		if strings.Contains(p.what, "told apart") {
			kind = "null-distinct"
		} else if strings.Contains(p.what, "not recovered") {
			kind = "undecided"
		} else if strings.Contains(p.what, "depends on") {
			kind = "purity"
		} else if strings.Contains(p.what, "share one key text") {
			kind = "lossy-rendering"
		}
		c := fname(f) + "#key-" + kind
		detail := fmt.Sprintf("format %s: %s", strings.Join(shapes, " or "), p.what)
		if p.witness != "" {
			detail += "; witness: " + p.witness
		}
		if kind == "undecided" {
			a.Und(c, f.Pos(), "%s", detail)
		} else {
			ob := a.Bad(c, f.Pos(), "%s", detail)
			ob.Extra = map[string]any{"format": shapes, "witness": p.witness}
		}
	}
}

// keyencAggregator: the group key in GroupAggregator.Add is the local string used to index ga.groups.
func (a *A) keyencAggregator() {
	add := a.Method("aggregator", "GroupAggregator", "Add")
	ga := a.Named("aggregator", "GroupAggregator")
	groups := a.FieldOf(ga, "groups")
	var keyV ssa.Value
	allInstrs(add, func(in ssa.Instruction) {
		if lk, ok := in.(*ssa.Lookup); ok {
			if t := TermOf(lk.X, nil); t.Kind == "field" && t.Field == groups && isStringType(lk.Index.Type()) {
				keyV = lk.Index
			}
		}
	})
	if keyV == nil {
		a.Und(fname(add)+"#key-format", add.Pos(), "no lookup ga.groups[key] found")
		return
	}
	sh := &shaper{a: a, memo: map[ssa.Value]*Shape{}, inprog: map[ssa.Value]bool{}}
	sh.callers = []*ssa.Function{add}
	s := sh.frame(sh.of(keyV))
	var probs []keyProblem
	sh.check(s, false, "", &probs)
	sh.nilProblems(&probs)
	construct := fname(add) + "#key-format"
	if len(probs) == 0 {
		a.Ok(construct, keyV.Pos(), "uniquely decodable: %s", s).Extra = map[string]any{"format": s.String()}
		return
	}
	seen := map[string]bool{}
	for _, p := range probs {
		if seen[p.what] {
			continue
		}
		seen[p.what] = true
		kind := "framing"
		if strings.Contains(p.what, "told apart") {
			kind = "null-distinct"
		} else if strings.Contains(p.what, "not recovered") {
			kind = "undecided"
		}
		detail := fmt.Sprintf("format %s: %s", s, p.what)
		if p.witness != "" {
			detail += "; witness: " + p.witness
		}
		if kind == "undecided" {
			a.Und(fname(add)+"#key-"+kind, add.Pos(), "%s", detail)
		} else {
			a.Bad(fname(add)+"#key-"+kind, add.Pos(), "%s", detail).Extra = map[string]any{"format": s.String(), "witness": p.witness}
		}
	}
}

// numericKindsRule: the type switch of fn covers every Go numeric kind (so that all numeric
// kinds share one normalised key tag).
func (a *A) numericKindsRule(fn *ssa.Function) {
	have := map[string]bool{}
	allInstrs(fn, func(in ssa.Instruction) {
		if ta, ok := in.(*ssa.TypeAssert); ok {
			if b, ok := ta.AssertedType.(*types.Basic); ok {
				have[b.Name()] = true
			}
		}
	})
	var missing []string
	for _, k := range []string{"int", "int8", "int16", "int32", "int64", "uint", "uint8", "uint16", "uint32", "uint64", "float32", "float64"} {
		if !have[k] {
			missing = append(missing, k)
		}
	}
	if len(missing) == 0 {
		a.Ok(fname(fn)+"#numeric-kinds", fn.Pos(), "all 12 numeric kinds are normalised to one tag")
		return
	}
	a.Bad(fname(fn)+"#numeric-kinds", fn.Pos(), "numeric kinds %v are not normalised: a table key %s(1) does not match the stream value 1 (float64)", missing, missing[0])
}

// sameNumberClass: tagged is concat(const tag, num) and c is the constant tag+<decimal number>.
func sameNumberClass(tagged, c *Shape) bool {
	// the digits alone, next to a constant that is a number (the tag in front of both: `"n:" {NUM | "0"}`)
	if tagged.K == "num" && c.K == "const" {
		_, err := strconv.ParseFloat(c.S, 64)
		return err == nil
	}
	if tagged.K != "concat" || len(tagged.Sub) != 2 || tagged.Sub[0].K != "const" || tagged.Sub[1].K != "num" || c.K != "const" {
		return false
	}
	tag := tagged.Sub[0].S
	if !strings.HasPrefix(c.S, tag) {
		return false
	}
	_, err := strconv.ParseFloat(c.S[len(tag):], 64)
	return err == nil
}


// placeholderEdges: x is the text of a (text, ok) pair that came back from a helper folded into its caller
// (`digits, isNumber = "", false` on the refusing ways): the edges on which the sibling boolean of the same block is
// the constant false and x is a constant, when every use of x lies under `if ok`. Those values are never used.
func placeholderEdges(x *ssa.Phi) map[int]bool {
	out := map[int]bool{}
	for _, in := range x.Block().Instrs {
		b, ok := in.(*ssa.Phi)
		if !ok {
			break
		}
		if b == x || !isBool(b.Type()) || len(b.Edges) != len(x.Edges) {
			continue
		}
		// the branch on b
		var yes *ssa.BasicBlock
		for _, r := range *b.Referrers() {
			if iff, ok := r.(*ssa.If); ok && iff.Cond == ssa.Value(b) {
				yes = iff.Block().Succs[0]
			}
		}
		if yes == nil || len(yes.Preds) != 1 {
			continue
		}
		under := true
		for _, r := range *x.Referrers() {
			if ph, isPhi := r.(*ssa.Phi); isPhi {
				// carried on into another variable: used where the edge comes from
				for i, e := range ph.Edges {
					if e == ssa.Value(x) {
						if p := ph.Block().Preds[i]; p != yes && !yes.Dominates(p) {
							under = false
						}
					}
				}
				continue
			}
			if r.Block() != yes && !yes.Dominates(r.Block()) {
				under = false
			}
		}
		if !under {
			continue
		}
		for i := range x.Edges {
			kb, isKb := b.Edges[i].(*ssa.Const)
			_, isKx := x.Edges[i].(*ssa.Const)
			if isKb && isKx && kb.Value != nil && kb.Value.Kind() == constant.Bool && !constant.BoolVal(kb.Value) {
				out[i] = true
			}
		}
		if len(out) > 0 && len(out) < len(x.Edges) {
			return out
		}
		out = map[int]bool{}
	}
	return out
}
