package main

import (
	"golang.org/x/tools/go/ssa"
)

func init() {
	register(&Prop{
		ID:          "C01",
		Decided:     "(1) types.TimeSlot.Contains is the half-open test Start<=t<End under all orderings; (2) in every tumbling-window loop that cuts tw.data, the take predicate is exactly membership in the fired slot and the keep predicate drops taken rows and retains rows of later intervals; (3) the current interval is only ever replaced by NextSlot() outside initialisation (no interval is skipped), and slot constructors tile: NextSlot starts at the current End and every slot ends at start+size, the first slot starts at alignWindowStart(ts,size); (4) the watermark handler extracts a slot only under watermark>=End; (5) the event-time Add discards a row only when IsEventTimeLate(ts) or no timestamp; (6) each taken row is stamped with the slot that selected it; (7) currentSlot is reassigned on every path between extracting the current slot and releasing the lock for delivery; (8) writers of TumblingWindow.data/currentSlot are the owner set; lock discipline of TumblingWindow fields. (10) the row buffer is used order-blind (append, element-wise rebuild, range loops): no positional read, binary search or prefix re-slice that would treat the arrival-ordered buffer as time-ordered. Also: every time.Now() in the window's Add (the processing-time stamp of the row) is executed with the window lock held exclusively, so no Trigger can deliver the stamped interval between the clock read and the placement (locks/clock-read-under-lock). Also: no comparison in the window's methods has a buffered row's timestamp on one side and a time derived from the lateness allowance (closeTime, AllowedLateness) on the other: which rows belong to an expired window is decided by its interval alone (shape/row-eviction-ignores-lateness). Also: in the window's methods that send on its output channel, every receive from that channel (drop-oldest eviction) is followed on every path by an increment of droppedCount (flow/evicted-result-counted). Also: the aligned start of an interval is computed from the timestamp's offset from the Unix epoch and never by time.Time.Truncate/Round, which count multiples from Go's zero time (shape/epoch-aligned).",
		NotDecided:  "arithmetic of alignWindowStart (truncation for pre-1970 stamps), equality of aggregate values, liveness (that an interval is eventually reported), exactly-once as a count over all schedules, the on-time row earlier than the first slot.",
		Assumptions: []string{"processing-time stamps are taken under tw.mu and slots only advance on ticks (domain ts>=Start for Trigger's keep table is not needed: the table constrains only ts>=Start cases)"},
		Run:         runC01,
	})
}

func runC01(a *A) {
	a.Rule("ordtab/contains", 1, a.ruleContains)
	a.Rule("ordtab/take-keep", 3, func() { // at least one cut per extracting method
		W := a.Named("window", "TumblingWindow")
		// every method of the window that cuts the buffer, wherever the cut sits (the extracting
		// methods today; the watermark handler itself when the extraction is done in place)
		for _, fn := range a.methodsOf(W) {
			if a.hasTakeLoop(W, fn) {
				a.ruleTakeKeep(W, fn, tkSpec{})
			}
		}
	})
	a.Rule("shape/slot-stamp", 2, func() {
		W := a.Named("window", "TumblingWindow")
		for _, fn := range a.methodsOf(W) {
			if a.hasTakeLoop(W, fn) {
				a.ruleSlotStamp(W, fn)
			}
		}
	})
	a.Rule("shape/slots-tile", 3, func() { a.tumblingSlotShapes("TumblingWindow", "size", "size") })
	a.Rule("shape/epoch-aligned", 1, func() { a.ruleEpochAligned() })
	a.Rule("shape/buffer-arrival-order", 4, func() { a.ruleBufferArrivalOrder(a.Named("window", "TumblingWindow")) })
	a.Rule("shape/row-eviction-ignores-lateness", 7, func() { a.ruleRowEvictionIgnoresLateness(a.Named("window", "TumblingWindow")) })
	a.Rule("locks/clock-read-under-lock", 1, func() { a.ruleClockReadUnderLock(a.Named("window", "TumblingWindow")) })
	a.Rule("flow/evicted-result-counted", 1, func() { a.ruleEvictedResultCounted(a.Named("window", "TumblingWindow")) })
	a.Rule("shape/in-place-filter", 0, func() { a.ruleInPlaceFilter("window") }) // no instance today (positives: cep, C15)
	a.Rule("shape/advance-by-one", 4, func() {
		a.ruleAdvanceByOne(a.Named("window", "TumblingWindow"), map[string]string{
			"(*window.TumblingWindow).Add":   "aligned slot of the first event",
			"(*window.TumblingWindow).Reset": "clears the window",
		})
	})
	a.Rule("ordtab/fire-guard", 1, func() {
		a.ruleFireGuard(a.Named("window", "TumblingWindow"), a.Method("window", "TumblingWindow", "checkAndTriggerWindows"))
	})
	a.Rule("flow/late-policy", 4, func() {
		a.ruleLatePolicy(a.Named("window", "TumblingWindow"), a.Method("window", "TumblingWindow", "Add"))
	})
	a.Rule("flow/advance-before-unlock", 2, func() {
		W := a.Named("window", "TumblingWindow")
		a.ruleAdvanceBeforeUnlock(W, a.Method("window", "TumblingWindow", "checkAndTriggerWindows"))
		a.ruleAdvanceBeforeUnlock(W, a.Method("window", "TumblingWindow", "Trigger"))
	})
	a.Rule("locks/guarded-by", 6, func() { a.lockRules("window", "TumblingWindow") })
	a.Rule("whomay/data-writers", 5, func() {
		W := a.Named("window", "TumblingWindow")
		a.ruleWriters("whomay/data-writers", W, "data", map[string]string{
			"(*window.TumblingWindow).Add":                         "appends the arriving row",
			"(*window.TumblingWindow).dropLastRow":                 "removes the row just appended (late drop)",
			"(*window.TumblingWindow).closeExpiredWindows":         "purges rows of windows whose allowance expired",
			"(*window.TumblingWindow).extractLateUpdateDataLocked": "moves late rows into the fired window's snapshot",
			"(*window.TumblingWindow).extractWindowDataLocked":     "removes the rows of the fired slot",
			"(*window.TumblingWindow).Trigger":                     "processing-time firing",
			"(*window.TumblingWindow).Reset":                       "clears the window",
		})
		a.ruleWriters("whomay/data-writers", W, "currentSlot", map[string]string{
			"(*window.TumblingWindow).Add":                    "first slot",
			"(*window.TumblingWindow).checkAndTriggerWindows": "advance after firing / skipping an empty slot",
			"(*window.TumblingWindow).Trigger":                "processing-time advance",
			"(*window.TumblingWindow).Reset":                  "clears the window",
		})
	})
}

// tumblingSlotShapes: NextSlot / createSlot / createSlotFromStart of a window type whose
// interval length field is sizeF and whose alignment granularity field is alignF.
func (a *A) tumblingSlotShapes(typ, sizeF, alignF string) {
	W := a.Named("window", typ)
	q := qual(W)
	okf := func(bool) (bool, string) { return true, "" }
	_ = okf
	next := a.Method("window", typ, "NextSlot")
	if typ == "TumblingWindow" {
		a.ruleSlotShape(next,
			func(st, en *Term) (bool, string) {
				f, base := slotField(st)
				return f == "End" && isFieldOf(base, q, "currentSlot"), "NextSlot must start at currentSlot.End;"
			},
			func(st, en *Term) (bool, string) {
				return isAddOf(en, st.String(), q, sizeF), "NextSlot must end at start.Add(" + sizeF + ");"
			})
	} else {
		// sliding: both ends shifted by slide
		a.ruleSlotShape(next,
			func(st, en *Term) (bool, string) {
				if st.Kind != "call" || st.Name != "(time.Time).Add" || len(st.Args) != 2 {
					return false, "NextSlot start must be currentSlot.Start.Add(slide);"
				}
				f, base := slotField(st.Args[0])
				return f == "Start" && isFieldOf(base, q, "currentSlot") && isFieldOf(st.Args[1], q, "slide"), "NextSlot start must be currentSlot.Start.Add(slide);"
			},
			func(st, en *Term) (bool, string) {
				if en.Kind != "call" || en.Name != "(time.Time).Add" || len(en.Args) != 2 {
					return false, "NextSlot end must be currentSlot.End.Add(slide) or start.Add(size);"
				}
				if isAddOf(en, st.String(), q, "size") {
					return true, ""
				}
				f, base := slotField(en.Args[0])
				return f == "End" && isFieldOf(base, q, "currentSlot") && isFieldOf(en.Args[1], q, "slide"), "NextSlot end must be currentSlot.End.Add(slide) or start.Add(size);"
			})
	}
	align := a.Func("window", "alignWindowStart")
	cs := a.Method("window", typ, "createSlot")
	a.ruleSlotShape(cs,
		func(st, en *Term) (bool, string) {
			ok := st.Kind == "call" && st.Fn == align && len(st.Args) == 2 && st.Args[0].Kind == "param" && isFieldOf(st.Args[1], q, alignF)
			return ok, "createSlot must start at alignWindowStart(t, " + alignF + ");"
		},
		func(st, en *Term) (bool, string) {
			return isAddOf(en, st.String(), q, sizeF), "createSlot must end at start.Add(" + sizeF + ");"
		})
	cfs := a.Method("window", typ, "createSlotFromStart")
	a.ruleSlotShape(cfs,
		func(st, en *Term) (bool, string) {
			return st.Kind == "param", "createSlotFromStart must start at its argument;"
		},
		func(st, en *Term) (bool, string) {
			return isAddOf(en, st.String(), q, sizeF), "createSlotFromStart must end at start.Add(" + sizeF + ");"
		})
	// the first event-time slot: Add passes alignWindowStart(ts, alignF) to createSlotFromStart
	add := a.Method("window", typ, "Add")
	found := false
	for _, c := range callsTo(add, cfs) {
		found = true
		t := TermOf(c.(*ssa.Call).Call.Args[1], nil)
		ok := t.Kind == "call" && t.Fn == align && len(t.Args) == 2 && isFieldOf(t.Args[1], q, alignF)
		if ok {
			// the aligned value is the event's timestamp (possibly merged with the processing-time fallback)
			ok = false
			if ac, isCall := c.(*ssa.Call).Call.Args[1].(*ssa.Call); isCall {
				ok = derivesFromCall(ac.Call.Args[0], "extractTimestamp", 0)
			}
		}
		a.Check(ok, fname(add)+"#first-slot", c.Pos(),
			"first event-time slot starts at alignWindowStart(eventTime, "+alignF+")",
			"first event-time slot start is "+t.String()+", expected alignWindowStart(eventTime, "+alignF+")")
	}
	if !found {
		a.Und(fname(add)+"#first-slot", add.Pos(), "Add does not call createSlotFromStart")
	}
}

// ruleEpochAligned: intervals are [k*size, (k+1)*size) counted from the Unix epoch. The value
// alignWindowStart returns must therefore be computed from the timestamp's epoch offset
// (Unix / UnixMilli / UnixMicro / UnixNano) and must not come out of time.Time.Truncate or Round:
// those round to multiples of d since Go's zero time (year 1), which is 62135596800 s before the
// epoch, so for every size that does not divide that number (7s, 11s, 1100ms, a week) all
// boundaries are shifted by a constant and rows land in the wrong intervals.
func (a *A) ruleEpochAligned() {
	fn := a.Func("window", "alignWindowStart")
	construct := fname(fn) + "#epoch-aligned"
	epoch, zeroBased := false, ""
	seen := map[ssa.Value]bool{}
	var rec func(v ssa.Value, d int)
	rec = func(v ssa.Value, d int) {
		if v == nil || seen[v] || d > 40 {
			return
		}
		seen[v] = true
		switch x := v.(type) {
		case *ssa.Call:
			switch calleeFull(&x.Call) {
			case "(time.Time).Truncate", "(time.Time).Round":
				zeroBased = calleeFull(&x.Call)
			case "(time.Time).Unix", "(time.Time).UnixNano", "(time.Time).UnixMilli", "(time.Time).UnixMicro":
				epoch = true
			}
			for _, arg := range x.Call.Args {
				rec(arg, d+1)
			}
			if cal := x.Call.StaticCallee(); cal != nil && a.fnInModule(cal) && cal.Blocks != nil {
				for _, b := range cal.Blocks {
					if ret, ok := b.Instrs[len(b.Instrs)-1].(*ssa.Return); ok {
						for _, r := range ret.Results {
							rec(r, d+1)
						}
					}
				}
			}
		case *ssa.Phi:
			for _, e := range x.Edges {
				rec(e, d+1)
			}
		case ssa.Instruction:
			for _, op := range x.Operands(nil) {
				if *op != nil {
					rec(*op, d+1)
				}
			}
		}
	}
	for _, b := range fn.Blocks {
		if ret, ok := b.Instrs[len(b.Instrs)-1].(*ssa.Return); ok {
			for _, r := range ret.Results {
				rec(r, 0)
			}
		}
	}
	switch {
	case zeroBased != "":
		a.Bad(construct, fn.Pos(), "the aligned start is computed with %s, which rounds to multiples counted from Go's zero time, not from the Unix epoch: for window sizes that do not divide 62135596800 s every interval boundary is shifted and rows are reported in intervals that are not [k*size,(k+1)*size)", zeroBased)
	case !epoch:
		a.Und(construct, fn.Pos(), "the aligned start is not derived from the timestamp's Unix epoch offset (Unix/UnixMilli/UnixMicro/UnixNano)")
	default:
		a.Ok(construct, fn.Pos(), "the aligned start is computed from the timestamp's offset from the Unix epoch")
	}
}
