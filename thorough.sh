#!/bin/bash
# thorough tier: the quick rules plus the checker's own controls (overlay mutants that must make
# the targeted rule fire). Controls validate the checker; the verdict comes from the unmodified tree.
set -u
cd "$(dirname "$0")"
PROP="$1"
exec ./bin/sa -prop "$PROP" -tier thorough
