#!/bin/bash
# thorough tier for one property:
#   1. the quick rules on the unmodified tree (verdict),
#   2. N-version check of the substrate: the analyzer rebuilt with go1.26.8 + x/tools v0.50.0 must
#      produce the identical obligation list and verdicts (a difference is a checker-integrity failure),
#   3. the checker's own controls: overlay mutants that must make the targeted rule fire (reported in
#      the evidence; they validate the checker, never the property),
#   4. self-tests on overlays (tools/selftest.py): the stored behaviour-preserving refactorings of this
#      property's code (and the property-preserving functional changes, refactors/PROP-g*.diff) must leave its
#      rules silent, the stored near misses of accepted new forms (negvariants/) and the stored seeded changes
#      that still apply must be reported. /repo is never modified: patches are applied to scratch copies and overlaid.
set -u
cd "$(dirname "$0")"
PROP="$1"
export GOFLAGS=-mod=mod GOPROXY=off GOSUMDB=off GOTOOLCHAIN=local GOWORK=off
REPO="${VERIF_REPO:-/repo}"
mkdir -p reports
EXTRA="reports/$PROP-thorough-extra.json"
FAILS=()
# 2. second toolchain
NV="skipped"
if command -v go1.26.8 >/dev/null 2>&1; then
  if [ ! -x bin/sa50 ] || [ -n "$(find sa -name '*.go' -newer bin/sa50 2>/dev/null | head -1)" ]; then
    (cd sa && go1.26.8 build -modfile=go.v50.mod -o ../bin/sa50 .) >reports/build50.log 2>&1 || NV="build-failed"
  fi
  if [ "$NV" != "build-failed" ]; then
    ./bin/sa -prop "$PROP" -repo "$REPO" -dump > "reports/$PROP.dump.a" 2>/dev/null
    PATH="/opt/veriftools/go1.26.8/bin:$PATH" ./bin/sa50 -prop "$PROP" -repo "$REPO" -dump > "reports/$PROP.dump.b" 2>/dev/null
    if cmp -s "reports/$PROP.dump.a" "reports/$PROP.dump.b"; then NV="identical"; else NV="DIFFERENT"; FAILS+=("n-version: obligations/verdicts differ between go1.23+x/tools0.29 and go1.26.8+x/tools0.50 (diff reports/$PROP.dump.a reports/$PROP.dump.b)"); fi
  fi
fi
# 2b. build configurations: -tags verif must give the same obligations (build-tagged files, should any
# appear, are covered). GOARCH=386 is not used: examples/custom-functions-demo does not type-check on
# 32-bit targets (an int constant overflows), so the module cannot be loaded as a whole there.
CFG="identical"
./bin/sa -prop "$PROP" -repo "$REPO" -tags verif -dump > "reports/$PROP.dump.tag" 2>/dev/null
[ -s "reports/$PROP.dump.a" ] || ./bin/sa -prop "$PROP" -repo "$REPO" -dump > "reports/$PROP.dump.a" 2>/dev/null
for v in tag; do
  if ! cmp -s "reports/$PROP.dump.a" "reports/$PROP.dump.$v"; then CFG="DIFFERENT($v)"; FAILS+=("build-config: obligations/verdicts differ under $v (diff reports/$PROP.dump.a reports/$PROP.dump.$v)"); fi
done
# 3. controls
CTL=$(python3 tools/controls.py "$PROP" 8 2>/dev/null || echo '{"controls":[],"fired":0,"missed":0,"skipped":0}')
# 4. self-tests on overlays
SELF=$(python3 tools/selftest.py "$PROP" 2>/dev/null || echo '{"refactorings":{"silent":0,"alarmed":[],"stale":0},"near_misses":{"fired":0,"silent":[],"stale":0},"seeded":{"caught":0,"missed":[],"declared_out_of_reach":[],"stale":0}}')
python3 - "$EXTRA" "$NV" "$CTL" "$CFG" "$SELF" "${FAILS[@]:-}" <<'PY'
import json, sys
extra, nv, ctl, cfg, selft = sys.argv[1], sys.argv[2], json.loads(sys.argv[3]), sys.argv[4], json.loads(sys.argv[5])
fails = [f for f in sys.argv[6:] if f]
for a in selft["refactorings"]["alarmed"]:
    fails.append("false alarm on the behaviour-preserving refactoring refactors/%s: %s" % (a["patch"], a["first"]))
for m in selft.get("near_misses", {}).get("silent", []):
    fails.append("the near miss negvariants/%s of an accepted new form is not reported" % m)
for m in selft["seeded"]["missed"]:
    fails.append("the stored seeded change seeded/%s is no longer reported by this property's check" % m)
json.dump({"self_tests": selft,
           "n_version_substrate": {"toolchains": ["go1.23.5 + x/tools v0.29.0", "go1.26.8 + x/tools v0.50.0"], "result": nv},
           "build_configurations": {"variants": ["default", "-tags verif"], "result": cfg},
           "checker_controls": ctl, "integrity_failures": fails}, open(extra, "w"), indent=1)
PY
exec ./bin/sa -prop "$PROP" -repo "$REPO" -tier thorough -extra "$EXTRA"
