#!/usr/bin/env python3
"""seedstore.py ID SEEDNAME PROPERTY 'needs' 'caught_by' 'what' : keep a confirmed seeded change under /verif/seeded/SEEDNAME/"""
import sys, os, shutil, json
sid, name, prop, needs, caught, what = sys.argv[1:7]
root = os.environ.get("SEEDROOT", "/tmp/seed")
src = f"{root}/{sid}.out"; dst = f"/verif/seeded/{name}"
os.makedirs(dst, exist_ok=True)
shutil.copy(f"{src}/patch.diff", f"{dst}/patch.diff")
demo = open(f"{src}/DEMO_PATH.txt").read().split()[0]
shutil.copy(f"{root}/{sid}/{demo}", f"{dst}/{os.path.basename(demo)}")
for f in ("NOTES.md", "confirm.log"):
    if os.path.exists(f"{src}/{f}"): shutil.copy(f"{src}/{f}", f"{dst}/{f}")
import re
cmd = re.findall(r"go test[^\n`]*", open(f"{src}/DEMO_PATH.txt").read())
meta = {"property": prop, "what": what, "needs_to_manifest": needs, "demo_path": demo, "demo_cmd": cmd[0] if cmd else "",
        "author": "independent sub-agent that saw only the property text and a scratch worktree",
        "confirmed": "tools/seedconfirm.sh: demo fails 3/3 with the change, passes 3/3 without it, full existing suite (go test ./...) passes with the change; see confirm.log",
        "checked_with": f"tools/seedcheck.sh {prop} seeded/{name}/patch.diff (git -C /repo apply; ./bin/sa -prop {prop}; git -C /repo checkout -- .)",
        "caught_by": caught}
json.dump(meta, open(f"{dst}/meta.json", "w"), indent=1)
print(dst, os.listdir(dst))
