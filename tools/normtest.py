#!/usr/bin/env python3
"""normtest.py PATCH... - development-time validation of the helper normalisation (not a check, never registered):
for each behaviour-preserving patch, the normalised sources the analyzer would look at (VERIF_NORM_DUMP) are written
over a scratch copy of the patched tree, which must still build, and the test suites of the packages whose files
were normalised must still pass. A failure means the normalisation changed the program (DESIGN 9.13, 9.14).
Scratch copies live under /tmp and are removed. Prints one line per patch; exit 1 if any failed."""
import os, re, shutil, subprocess, sys, tempfile, concurrent.futures
env = dict(os.environ, GOFLAGS="-mod=mod", GOPROXY="off", GOSUMDB="off", GOTOOLCHAIN="local", GOWORK="off")
def one(patch):
    patch = os.path.abspath(patch)
    tmp = tempfile.mkdtemp(prefix="verif-normtest-", dir="/tmp")
    try:
        repo = os.path.join(tmp, "repo")
        subprocess.run(["rsync", "-a", "--exclude", ".git", "/repo/", repo + "/"], check=True)
        if subprocess.run(["git", "apply", "--unsafe-paths", patch], cwd=repo, capture_output=True).returncode != 0:
            return patch, "does-not-apply", ""
        dump = os.path.join(tmp, "dump")
        os.makedirs(dump)
        subprocess.run(["/verif/bin/sa", "-prop", "C01,C01", "-repo", repo, "-no-evidence"], env=dict(env, VERIF_NORM_DUMP=dump), capture_output=True, text=True)
        pkgs = set()
        for root, _, files in os.walk(dump):
            for f in files:
                if f.endswith(".go"):
                    rel = os.path.relpath(os.path.join(root, f), dump)
                    shutil.copy(os.path.join(root, f), os.path.join(repo, rel))
                    pkgs.add("./" + os.path.dirname(rel) if os.path.dirname(rel) else ".")
        if not pkgs:
            return patch, "nothing-normalised", ""
        b = subprocess.run(["go", "build", "./..."], cwd=repo, env=env, capture_output=True, text=True)
        if b.returncode != 0:
            return patch, "BUILD-FAILED", b.stderr[-600:]
        t = subprocess.run(["go", "test", "-vet=off", "-count=1", "-timeout", "15m"] + sorted(pkgs), cwd=repo, env=env, capture_output=True, text=True)
        if t.returncode != 0:
            fails = "\n".join(l for l in t.stdout.splitlines() if l.startswith("--- FAIL") or l.startswith("FAIL"))
            return patch, "TESTS-FAILED", fails[-800:]
        return patch, "ok " + " ".join(sorted(pkgs)), ""
    finally:
        shutil.rmtree(tmp, ignore_errors=True)
rc = 0
with concurrent.futures.ThreadPoolExecutor(max_workers=int(os.environ.get("VERIF_JOBS", "6"))) as ex:
    for patch, st, detail in ex.map(one, sys.argv[1:]):
        print(st.split()[0].upper() if st.startswith("ok") else st, os.path.basename(patch), st[3:] if st.startswith("ok") else "", flush=True)
        if detail:
            print("    " + detail.replace("\n", "\n    "), flush=True)
        if st in ("BUILD-FAILED", "TESTS-FAILED"):
            rc = 1
sys.exit(rc)
