#!/bin/bash
# baseall.sh - every property's rules on the unchanged tree (no evidence written); prints only failures.
cd /verif
for i in $(seq -w 1 20); do
  out=$(./bin/sa -prop C$i -no-evidence | grep -v "registered-functions-stateless" | grep -E "CONTROL-(FAIL|FLOOR)|did not complete")
  [ -n "$out" ] && echo "C$i: $out"
done
echo "baseall done"
