#!/usr/bin/env python3
"""Regenerate /verif/MANIFEST.json from the analyzer's registered properties (sa -describe)."""
import json, subprocess
desc = json.loads(subprocess.check_output(["/verif/bin/sa", "-describe"]))
ids = [json.loads(l)["id"] for l in open("/verif/properties.jsonl")]
NA_REASON = {}  # filled when a property is wholly not decidable statically
checks, na = [], []
for pid in ids:
    if pid in desc:
        d = desc[pid]
        checks.append({
            "property_id": pid,
            "quick_cmd": f"./check {pid} quick",
            "thorough_cmd": f"./check {pid} thorough",
            "evidence_file": f"/verif/evidence/{pid}.json",
            "replay_cmd_template": f"./check {pid} quick --replay {{path}}",
            "engine": "sa",
            "level_claimed": {
                "category": "other",
                "text": "Static analysis of /repo's type-checked source and go/ssa form (nothing is executed). Decides, for every path / call site / implementation, these structural clauses, each a necessary condition of the property: " + d["decided"] + " It does NOT decide the behaviour as a whole: " + d["not_decided"],
                "design_ref": "DESIGN.md section 4, " + pid,
            },
            "level_note": "Trusted base: go/types + go/ssa (x/tools v0.29.0) model of the program; rule tables in /verif/sa (anchors resolved through types; undecided or unresolved anchors fail). Only the named clauses are decided; value-level behaviour is out of reach of this technique. When the tree declares functions that are not in sa/inventory.txt their same-package calls are inlined before the analysis (vendored x/tools inliner plus a flattening pass, every step re-type-checked; DESIGN 9.9): that pass is trusted to preserve behaviour.",
            "technique": d.get("technique") or "static analysis: custom go/ssa rules (order-predicate truth tables, dominance/must-pass-through, lockset, key-format injectivity, taint)",
        })
    else:
        na.append({"property_id": pid, "reason": NA_REASON.get(pid, "check not built yet in this session (static rules planned in DESIGN.md section 4); nothing is claimed for it")})
m = {
    "version": 1,
    "setup_cmd": "mkdir -p bin evidence reports && cd sa && GOFLAGS=-mod=mod GOPROXY=off GOSUMDB=off GOTOOLCHAIN=local GOWORK=off go build -o ../bin/sa .",
    "hooks": {"guard": "verif", "enable": "none needed: the checks read source only; -tags verif is accepted by the loader (VERIF_TAGS)", "baseline_off_cmd": "cd /repo && go test -mod=mod -json -vet=off -count=1 -timeout 25m ./...", "source_commits": [], "add_only": True},
    "engines": [{"name": "sa", "path": "/verif/sa", "serves_properties": [c["property_id"] for c in checks], "kind_free_text": "repo-specific static analyzer on go/packages + go/ssa: ordtab, flow, shape, locks, keyenc, ownmap, aggstate, tables, fnsafe, term, golife, whomay rule engines"}],
    "checks": checks,
    "not_applicable": na,
    "notes": "All checks are static (no streamsql code is executed). Known findings: /verif/known_findings.json. Design: /verif/DESIGN.md.",
}
json.dump(m, open("/verif/MANIFEST.json", "w"), indent=1)
print("checks:", len(checks), "not_applicable:", len(na))
