#!/usr/bin/env python3
"""refacprompt.py PROP ROUND : print the prompt given to an independent sub-agent that writes three
behaviour-preserving refactorings of the code a property is anchored in (false-alarm test of the checks).
The prompt contains the property text, the scratch worktree and the headlines of earlier refactorings
(so that new ones differ). Nothing else from /verif."""
import json, sys, os, glob, re
prop, rnd = sys.argv[1], sys.argv[2]
P = None
for l in open("/verif/properties.jsonl"):
    d = json.loads(l)
    if d["id"] == prop: P = d
sid = f"{prop}f{rnd}"
done = []
for n in sorted(glob.glob(f"/verif/refactors/{prop}*NOTES.md")):
    for l in open(n):
        if l.startswith("## "): done.append("- " + l[3:].strip()[:300])
print(f"""You are helping test a static verification tool for the Go library rulego/streamsql (an in-memory SQL stream
processing engine). The tool must stay SILENT on code that still satisfies a property. I need THREE independent,
strictly behaviour-preserving refactorings of the code that carries the property below, the kind a maintainer
commits while tidying up.

Your scratch checkout is the git worktree /tmp/refac/{sid} (already created; work ONLY there, never touch /repo or
/verif, and do not read anything under /verif). Environment for every shell call (no network):
  export GOFLAGS=-mod=mod GOPROXY=off GOSUMDB=off GOTOOLCHAIN=local

The property (JSON; read the code it is anchored in):
{json.dumps(P, indent=1, ensure_ascii=False)}

Rules for each refactoring:
* It touches the functions that implement the property's mechanisms (see anchors) - the more central the better -
  and changes their SHAPE, not their behaviour: extract a helper / inline a helper, if-chain <-> switch, inverted
  condition with early return, named boolean for a compound condition, range loop <-> index loop,
  `!a.Before(b)` <-> `a.After(b) || a.Equal(b)`, hoisted locals, closure <-> method, defer <-> explicit unlock on
  every path (only where equivalent, including on panic paths that matter), merging two duplicated code blocks into
  one helper, splitting a long function into stages, reordering independent statements, moving a guard into the
  callee or the caller (for ALL callers), replacing a hand-written loop by an equivalent stdlib call or vice versa.
  Mix several of these in one refactoring; 40-150 changed lines each.
* Behaviour must be EXACTLY preserved for every input and schedule: same results, same errors, same locking
  (same locks held over the same operations), same goroutines, same ordering of side effects, same counters.
  If you are not sure an edit is equivalent, do not make it.
* Do NOT rename, delete or change the signature of any existing function, method, type, struct field, constant or
  package-level variable (new unexported helpers and locals are fine). Do not touch test files.
* The three refactorings are independent alternatives: each is a diff against the unmodified HEAD, not stacked.
* Each must compile, `go vet ./...` unaffected, and the ENTIRE existing suite must pass with it:
    go test -vet=off -count=1 -timeout 25m ./...
  (a few timing tests in package window such as TestOverflowStrategies are occasionally flaky under load - re-run a
  failing package alone before concluding).
* Different from these earlier refactorings (do not repeat them; pick other functions or other transformations):
{chr(10).join(done) if done else '- (none)'}

Procedure: for k in 1,2,3: make the edit, build, run the suite, `git diff > /tmp/refac/{sid}.out/refactor<k>.diff`,
then `git checkout -- .` (and remove new untracked files) before the next one.

Deliverables under /tmp/refac/{sid}.out/ (create the directory): refactor1.diff, refactor2.diff, refactor3.diff and
NOTES.md with, per refactoring, a heading line `## refactor<k>.diff - <one-line summary>`, what was changed where,
why it is behaviour-preserving, and what you ran. Leave the worktree clean (HEAD) at the end. Do not commit.""")
