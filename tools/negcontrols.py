"""negcontrols.py - behaviour-preserving refactors (in-memory overlays) on which every check must stay silent."""
import sys,os,subprocess,tempfile
NEG=[
 ("C01","local-slot","window/tumbling_window.go","\tresultData := make([]types.Row, 0)\n\tfor _, item := range tw.data {\n\t\tif tw.currentSlot.Contains(item.Timestamp) {\n\t\t\titem.Slot = tw.currentSlot\n\t\t\tresultData = append(resultData, item)\n\t\t}\n\t}\n\n\t// Skip triggering if window has no data","\tslot := tw.currentSlot\n\tresultData := make([]types.Row, 0)\n\tfor _, item := range tw.data {\n\t\tif slot.Contains(item.Timestamp) {\n\t\t\titem.Slot = slot\n\t\t\tresultData = append(resultData, item)\n\t\t}\n\t}\n\n\t// Skip triggering if window has no data"),
 ("C01","after-or-equal","window/tumbling_window.go","shouldTrigger := !watermarkTime.Before(*windowEnd)","shouldTrigger := watermarkTime.After(*windowEnd) || watermarkTime.Equal(*windowEnd)"),
 ("C02","after-or-equal-sliding","window/sliding_window.go","shouldTrigger := !watermarkTime.Before(*windowEnd)","shouldTrigger := watermarkTime.Equal(*windowEnd) || watermarkTime.After(*windowEnd)"),
 ("C02","late-reordered","window/watermark.go","return !wm.currentWatermark.IsZero() && eventTime.Before(wm.currentWatermark)","if wm.currentWatermark.IsZero() {\n\t\treturn false\n\t}\n\treturn wm.currentWatermark.After(eventTime)"),
 ("C09","local-threshold","window/counting_window.go","\t\t\t\tif cw.keyedCount[key] >= cw.threshold {","\t\t\t\tn := cw.threshold\n\t\t\t\tif len(buf) >= n {"),
 ("C17","delete-before-build","window/global_window.go","\t\tresult := gw.buildResult(gs)\n\t\t// FIRE_AND_PURGE: drop the group so the next rows start fresh.\n\t\tdelete(gw.groups, key)","\t\tdelete(gw.groups, key)\n\t\tresult := gw.buildResult(gs)"),
 ("C07","limit-local","stream/processor_data.go","\tif dp.stream.config.Limit > 0 && len(finalResults) > dp.stream.config.Limit {\n\t\tfinalResults = finalResults[:dp.stream.config.Limit]\n\t}","\tif limit := dp.stream.config.Limit; limit > 0 && limit < len(finalResults) {\n\t\tfinalResults = finalResults[:limit]\n\t}"),
 ("C12","guard-as-helper","condition/condition.go","\tcase int64:\n\t\tif x > maxExactFloatInt || x < -maxExactFloatInt {\n\t\t\treturn 0, false\n\t\t}\n\t\treturn float64(x), true","\tcase int64:\n\t\tif x < -maxExactFloatInt || maxExactFloatInt < x {\n\t\t\treturn 0, false\n\t\t}\n\t\treturn float64(x), true"),
 ("C18","stop-early-return-style","stream/stream.go","\tif s.cep != nil {\n\t\ts.cep.Stop()\n\t}\n\n\t// 冲刷","\tif c := s.cep; c != nil {\n\t\tc.Stop()\n\t}\n\n\t// 冲刷"),
 ("C19","drop-inc-first","stream/strategy.go","\tes.stream.log.Warn(\"Data channel still full after expansion, dropping input data\")\n\tes.stream.mInputDropped.Inc()","\tes.stream.mInputDropped.Inc()\n\tes.stream.log.Warn(\"Data channel still full after expansion, dropping input data\")"),
 ("C03","null-guard-split","aggregator/group_aggregator.go","\t\tif fieldVal == nil && !ga.shouldAllowNullValues(aggType) {\n\t\t\tcontinue\n\t\t}","\t\tif fieldVal == nil {\n\t\t\tif !ga.shouldAllowNullValues(aggType) {\n\t\t\t\tcontinue\n\t\t\t}\n\t\t}"),
 ("C05","early-return-merge","stream/stream.go","\tanalyticResults, pass := s.applyWhereAndAnalytic(dataMap)\n\tif !pass {\n\t\treturn nil, nil\n\t}\n\tresult, emit := s.projectDirectRow(dataMap, analyticResults)\n\tif !emit {\n\t\treturn nil, nil\n\t}\n\ts.mOutput.Inc()","\tanalyticResults, pass := s.applyWhereAndAnalytic(dataMap)\n\tif pass {\n\t\tif result, emit := s.projectDirectRow(dataMap, analyticResults); emit {\n\t\t\ts.mOutput.Inc()\n\t\t\ts.callSinksAsync([]map[string]any{result})\n\t\t\treturn result, nil\n\t\t}\n\t}\n\treturn nil, nil\n}\n\nfunc (s *Stream) unusedTail(result map[string]any) (map[string]any, error) {"),
 ("C14","when-split","stream/analytic.go","\tif fe.whenCond != nil && !fe.whenCond.Evaluate(row) {","\tif fe.whenCond == nil {\n\t} else if !fe.whenCond.Evaluate(row) {"),
 ("C10","gap-before","window/session_window.go","\t} else if !timestamp.Before(*s.slot.End) {","\t} else if !s.slot.End.After(timestamp) {"),
 ("C08","keep-ge","window/sliding_window.go","\t\tif !item.Timestamp.Before(nextWindowStart) {\n\t\t\tnewData = append(newData, item)","\t\tif item.Timestamp.After(nextWindowStart) || item.Timestamp.Equal(nextWindowStart) {\n\t\t\tnewData = append(newData, item)"),
 ("C08","in-place-filter","window/sliding_window.go","\tnewData := make([]types.Row, 0)\n\tfor _, item := range sw.data {\n\t\tif !item.Timestamp.Before(nextWindowStart) {\n\t\t\tnewData = append(newData, item)\n\t\t}\n\t}\n\tsw.data = newData","\tnewData := sw.data[:0]\n\tfor _, item := range sw.data {\n\t\tif !item.Timestamp.Before(nextWindowStart) {\n\t\t\tnewData = append(newData, item)\n\t\t}\n\t}\n\tsw.data = newData"),
 ("C15","accept-test-reordered","cep/engine.go","\t\tif hasAccept(r.states) && !anyAccept(succ) {","\t\tif !anyAccept(succ) && hasAccept(r.states) {"),
 ("C15","accept-nested-ifs","cep/engine.go","\t\tif hasAccept(r.states) && !anyAccept(succ) {\n\t\t\tcompletions = append(completions, r)\n\t\t}","\t\tif hasAccept(r.states) {\n\t\t\tif !anyAccept(succ) {\n\t\t\t\tcompletions = append(completions, r)\n\t\t\t}\n\t\t}"),
 ("C15","seq-local","cep/engine.go","\tp.seq++\n\temitted := e.step(p, row, ts, p.seq)","\tp.seq = p.seq + 1\n\temitted := e.step(p, row, ts, p.seq)"),
 ("C05","program-local","condition/condition.go","\tresult, err := expr.Run(ec.program, env)\n\tif err != nil {\n\t\treturn false\n\t}","\tprog := ec.program\n\tresult, err := expr.Run(prog, env)\n\tif err != nil {\n\t\treturn false\n\t}"),
 ("C07","having-prealloc","stream/processor_data.go","\tvar filteredResults []map[string]any\n\t// Apply HAVING filter","\tfilteredResults := make([]map[string]any, 0, len(results))\n\t// Apply HAVING filter"),
 ("C11","dir-reset-at-top","rsql/parser.go","\tfor {\n\t\tvar exprBuilder strings.Builder\n\t\tdir := types.SortAsc\n","\tdir := types.SortAsc\n\tfor {\n\t\tvar exprBuilder strings.Builder\n\t\tdir = types.SortAsc\n"),
 ("C06","cache-store-in-if","functions/expr_bridge.go","\tprogram, err := expr.Compile(expression, options...)\n\tif err != nil {\n\t\treturn nil, err\n\t}\n\tbridge.programCache.Store(expression, &progCacheEntry{typ: dt, prog: program})\n\treturn program, nil","\tprogram, err := expr.Compile(expression, options...)\n\tif err == nil {\n\t\tbridge.programCache.Store(expression, &progCacheEntry{typ: dt, prog: program})\n\t\treturn program, nil\n\t}\n\treturn nil, err"),
 ("C12","class-reordered","condition/condition.go","'([^'\\\\]*)'\\s*$`)","'([^\\\\']*)'\\s*$`)"),
 ("C13","trim-both","functions/expr_bridge.go","\t\tsuffix := strings.TrimLeft(pattern, \"%\")","\t\tsuffix := strings.Trim(pattern, \"%\")"),
 ("C03","index-loop-copy","aggregator/post_aggregation.go","\tfor _, field := range requiredFields {\n\t\t// the expression evaluator registered below captures field: give every iteration its own\n\t\t// copy (go.mod is below go 1.22, where the range variable is shared by all iterations)\n\t\tfield := field\n","\tfor i := range requiredFields {\n\t\tfield := requiredFields[i]\n"),
 ("C03","fold-upper","aggregator/group_aggregator.go","\tt := AggregateType(strings.ToLower(string(aggType)))\n\treturn t == FirstValue || t == LastValue","\tswitch AggregateType(strings.ToLower(string(aggType))) {\n\tcase FirstValue, LastValue:\n\t\treturn true\n\t}\n\treturn false"),
 ("C01","range-index","window/tumbling_window.go","\tkept := make([]types.Row, 0, len(tw.data))\n\tfor _, item := range tw.data {","\tkept := make([]types.Row, 0, len(tw.data))\n\tfor i := range tw.data {\n\t\titem := tw.data[i]"),
 ("C13","nil-guard-as-flag","expr/evaluator.go","\t// Handle NULL values\n\tif left == nil || right == nil {\n","\tanyNull := left == nil || right == nil\n\tif anyNull {\n"),
 ("C14","acc-accumulate-helper","functions/analytic_acc.go","\tif len(args) > 0 {\n\t\tval := args[0]\n","\tif len(args) == 0 {\n\t\treturn s.result()\n\t}\n\t{\n\t\tval := args[0]\n"),
]
repo="/repo"
for p,cid,rel,old,new in NEG:
    src=open(os.path.join(repo,rel)).read()
    if old not in src: print(p,cid,"PATTERN-NOT-FOUND"); continue
    with tempfile.NamedTemporaryFile("w",suffix=".go",delete=False,dir="/dev/shm") as f:
        f.write(src.replace(old,new,1)); tmp=f.name
    r=subprocess.run(["/verif/bin/sa","-prop",p,"-no-evidence","-overlay",f"{rel}={tmp}"],capture_output=True,text=True)
    os.unlink(tmp)
    fails=[l[:260] for l in r.stdout.splitlines() if l.startswith("CONTROL-FAIL") or "cannot load" in l]
    print(p,cid,"OK" if not fails else "ALARM", *fails, sep="\n   " if fails else " ")
