#!/usr/bin/env python3
"""Apply a one-off textual mutation to a repo file in memory (go/packages overlay) and run one
property's rules on it. Usage: mutate.py PROP FILE OLD NEW [count]   (checker self-test helper)"""
import sys, os, subprocess, tempfile
prop, rel, old, new = sys.argv[1:5]
repo = os.environ.get("VERIF_REPO", "/repo")
src = open(os.path.join(repo, rel)).read()
if old not in src:
    print("MUTATE: pattern not found"); sys.exit(3)
n = int(sys.argv[5]) if len(sys.argv) > 5 else 1
src2 = src.replace(old, new, n)
with tempfile.NamedTemporaryFile("w", suffix=".go", delete=False, dir="/dev/shm") as f:
    f.write(src2); tmp = f.name
try:
    r = subprocess.run(["/verif/bin/sa", "-prop", prop, "-no-evidence", "-overlay", f"{rel}={tmp}"], capture_output=True, text=True)
    print(r.stdout[-3000:], r.stderr[-2000:])
finally:
    os.unlink(tmp)
