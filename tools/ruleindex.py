#!/usr/bin/env python3
"""ruleindex.py - print a markdown table: property -> rules with the number of obligations each produced in the
latest quick report (reports/Cxx-quick.txt). Used to keep DESIGN.md section 9.7 in step with the code."""
import re, collections, glob
rows = []
for f in sorted(glob.glob("/verif/reports/C??-quick.txt")):
    prop = f.split("/")[-1][:3]
    cnt = collections.Counter()
    on = False
    for l in open(f):
        if l.startswith("--- all obligations"):
            on = True; continue
        if on:
            m = re.match(r"(\S+)\s+(\S+/\S+|checker-integrity)\s", l)
            if m: cnt[m.group(2)] += 1
    rows.append((prop, cnt))
print("| Property | Rules (obligations on the current tree) |")
print("|---|---|")
tot = 0
for prop, cnt in rows:
    tot += sum(cnt.values())
    print("| %s | %s |" % (prop, ", ".join("`%s` %d" % (r, n) for r, n in sorted(cnt.items()))))
print()
print("Total: %d obligations, %d distinct rules." % (tot, len({r for _, c in rows for r in c})))
