module mechrefac

go 1.22.0

toolchain go1.23.5

require golang.org/x/tools v0.29.0

require (
	golang.org/x/mod v0.22.0 // indirect
	golang.org/x/sync v0.10.0 // indirect
)
