module mechrefac

go 1.21
