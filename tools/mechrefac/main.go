// mechrefac: mechanical, behaviour-preserving source transformations of every function of a Go
// module, used as a systematic false-alarm test of the static checks (DESIGN 9.9).
//
//	mechrefac -t wrap|namedbool|invert -repo /repo -out DIR [-only regexp-on-relative-path]
//
// wrap:      func F(p) r { body }  ->  func F__body(p) r { body } ; func F(p) r { return F__body(p) }
// namedbool: if cond {            ->  cN__ := cond; if cN__ {
// invert:    if c {A} else {B}    ->  if !(c) {B} else {A}
//
// Only syntax is used (go/parser); edits are textual so comments and layout survive. Files are
// written under DIR with their repo-relative paths; the list "rel=abs,..." is printed for -overlay.
package main

import (
	"bytes"
	"flag"
	"fmt"
	"go/ast"
	"go/parser"
	"go/printer"
	"go/token"
	"go/types"
	"golang.org/x/tools/go/packages"
	"os"
	"path/filepath"
	"regexp"
	"sort"
	"strings"
)

type edit struct {
	lo, hi int // byte offsets, replace src[lo:hi]
	text   string
}

func apply(src []byte, es []edit) []byte {
	sort.SliceStable(es, func(i, j int) bool { return es[i].lo < es[j].lo })
	var out bytes.Buffer
	at := 0
	for _, e := range es {
		if e.lo < at {
			panic(fmt.Sprintf("overlapping edits at %d", e.lo))
		}
		out.Write(src[at:e.lo])
		out.WriteString(e.text)
		at = e.hi
	}
	out.Write(src[at:])
	return out.Bytes()
}

func main() {
	t := flag.String("t", "wrap", "wrap|namedbool|invert|flipcmp|range2index")
	repo := flag.String("repo", "/repo", "module root")
	out := flag.String("out", "", "output directory")
	only := flag.String("only", "", "regexp on repo-relative path")
	skipFn := flag.String("skipfn", "", "regexp on function names to leave alone")
	flag.Parse()
	var re, reFn *regexp.Regexp
	if *only != "" {
		re = regexp.MustCompile(*only)
	}
	if *skipFn != "" {
		reFn = regexp.MustCompile(*skipFn)
	}
	var pairs []string
	nEdits := 0
	if *t == "range2index" || *t == "timeflip" {
		loadSliceRanges(*repo)
	}
	filepath.Walk(*repo, func(p string, fi os.FileInfo, err error) error {
		if err != nil {
			return nil
		}
		if fi.IsDir() {
			if strings.HasPrefix(fi.Name(), ".") && p != *repo {
				return filepath.SkipDir
			}
			return nil
		}
		if !strings.HasSuffix(p, ".go") || strings.HasSuffix(p, "_test.go") {
			return nil
		}
		rel, _ := filepath.Rel(*repo, p)
		if re != nil && !re.MatchString(rel) {
			return nil
		}
		src, _ := os.ReadFile(p)
		fset := token.NewFileSet()
		f, err := parser.ParseFile(fset, p, src, parser.ParseComments)
		if err != nil {
			fmt.Fprintln(os.Stderr, "parse:", err)
			return nil
		}
		var res []byte
		var n int
		switch *t {
		case "wrap":
			res, n = wrap(fset, f, src, reFn)
		case "namedbool":
			res, n = namedbool(fset, f, src)
		case "invert":
			res, n = invert(fset, f, src)
		case "flipcmp":
			res, n = flipcmp(fset, f, src)
		case "range2index":
			res, n = range2index(fset, f, src, sliceRanges[p])
		case "timeflip":
			res, n = timeflip(fset, f, src, timeCalls[p])
		case "forbreak":
			res, n = forbreak(fset, f, src)
		default:
			panic("unknown transformation")
		}
		if n == 0 {
			return nil
		}
		nEdits += n
		dst := filepath.Join(*out, rel)
		os.MkdirAll(filepath.Dir(dst), 0o755)
		os.WriteFile(dst, res, 0o644)
		pairs = append(pairs, rel+"="+dst)
		return nil
	})
	fmt.Fprintf(os.Stderr, "%s: %d sites in %d files\n", *t, nEdits, len(pairs))
	fmt.Println(strings.Join(pairs, ","))
}

func off(fset *token.FileSet, p token.Pos) int { return fset.Position(p).Offset }

func hasDirectRecover(body *ast.BlockStmt) bool {
	found := false
	ast.Inspect(body, func(n ast.Node) bool {
		if _, ok := n.(*ast.FuncLit); ok {
			return false
		}
		if c, ok := n.(*ast.CallExpr); ok {
			if id, ok := c.Fun.(*ast.Ident); ok && id.Name == "recover" {
				found = true
			}
		}
		return true
	})
	return found
}

// wrap moves every function body into F__body and leaves F as a forwarding wrapper.
func wrap(fset *token.FileSet, f *ast.File, src []byte, skip *regexp.Regexp) ([]byte, int) {
	var es []edit
	var tail bytes.Buffer
	n := 0
	for _, d := range f.Decls {
		fd, ok := d.(*ast.FuncDecl)
		if !ok || fd.Body == nil || fd.Name.Name == "init" || fd.Name.Name == "main" || fd.Name.Name == "_" {
			continue
		}
		if fd.Type.TypeParams != nil || hasDirectRecover(fd.Body) {
			continue
		}
		if skip != nil && skip.MatchString(fd.Name.Name) {
			continue
		}
		generic := false
		recvName := ""
		if fd.Recv != nil && len(fd.Recv.List) == 1 {
			rt := fd.Recv.List[0].Type
			if st, ok := rt.(*ast.StarExpr); ok {
				rt = st.X
			}
			switch rt.(type) {
			case *ast.IndexExpr, *ast.IndexListExpr:
				generic = true
			}
			if len(fd.Recv.List[0].Names) == 1 && fd.Recv.List[0].Names[0].Name != "_" {
				recvName = fd.Recv.List[0].Names[0].Name
			}
		}
		if generic {
			continue
		}
		// name the parameters (text edits + AST mutation for printing the wrapper's signature)
		var args []string
		k := 0
		for _, fld := range fd.Type.Params.List {
			_, variadic := fld.Type.(*ast.Ellipsis)
			if len(fld.Names) == 0 {
				nm := fmt.Sprintf("p%d__", k)
				k++
				es = append(es, edit{off(fset, fld.Type.Pos()), off(fset, fld.Type.Pos()), nm + " "})
				fld.Names = []*ast.Ident{ast.NewIdent(nm)}
			}
			for _, id := range fld.Names {
				if id.Name == "_" {
					nm := fmt.Sprintf("p%d__", k)
					k++
					es = append(es, edit{off(fset, id.Pos()), off(fset, id.End()), nm})
					id.Name = nm
				}
				a := id.Name
				if variadic {
					a += "..."
				}
				args = append(args, a)
			}
		}
		recvText := ""
		callPrefix := ""
		if fd.Recv != nil {
			fld := fd.Recv.List[0]
			if recvName == "" {
				recvName = "recv__"
				if len(fld.Names) == 0 {
					es = append(es, edit{off(fset, fld.Type.Pos()), off(fset, fld.Type.Pos()), recvName + " "})
				} else {
					es = append(es, edit{off(fset, fld.Names[0].Pos()), off(fset, fld.Names[0].End()), recvName})
				}
			}
			var tb bytes.Buffer
			printer.Fprint(&tb, fset, fld.Type)
			recvText = "(" + recvName + " " + tb.String() + ") "
			callPrefix = recvName + "."
		}
		es = append(es, edit{off(fset, fd.Name.Pos()), off(fset, fd.Name.End()), fd.Name.Name + "__body"})
		var sb bytes.Buffer
		printer.Fprint(&sb, fset, fd.Type)
		sig := strings.TrimPrefix(sb.String(), "func")
		call := callPrefix + fd.Name.Name + "__body(" + strings.Join(args, ", ") + ")"
		if fd.Type.Results != nil && len(fd.Type.Results.List) > 0 {
			call = "return " + call
		}
		fmt.Fprintf(&tail, "\nfunc %s%s%s {\n\t%s\n}\n", recvText, fd.Name.Name, sig, call)
		n++
	}
	if n == 0 {
		return src, 0
	}
	res := apply(src, es)
	res = append(res, tail.Bytes()...)
	return res, n
}

type ifSite struct {
	s      *ast.IfStmt
	elseIf bool
}

func collectIfs(f *ast.File) []ifSite {
	elseIf := map[*ast.IfStmt]bool{}
	labeled := map[ast.Stmt]bool{}
	var all []ifSite
	ast.Inspect(f, func(n ast.Node) bool {
		switch x := n.(type) {
		case *ast.IfStmt:
			if e, ok := x.Else.(*ast.IfStmt); ok {
				elseIf[e] = true
			}
			all = append(all, ifSite{s: x})
		case *ast.LabeledStmt:
			labeled[x.Stmt] = true
		}
		return true
	})
	var out []ifSite
	for _, s := range all {
		if labeled[s.s] {
			continue
		}
		s.elseIf = elseIf[s.s]
		out = append(out, s)
	}
	return out
}

// namedbool: `if cond {` -> `cN__ := cond; if cN__ {` for if statements without init that are not
// the `else if` of another one.
func namedbool(fset *token.FileSet, f *ast.File, src []byte) ([]byte, int) {
	sites := collectIfs(f)
	var es []edit
	n := 0
	type span struct{ lo, hi int }
	var conds []span
	inCond := func(p int) bool {
		for _, c := range conds {
			if p >= c.lo && p < c.hi {
				return true
			}
		}
		return false
	}
	sort.Slice(sites, func(i, j int) bool { return sites[i].s.Pos() < sites[j].s.Pos() })
	for _, st := range sites {
		s := st.s
		if st.elseIf || s.Init != nil {
			continue
		}
		if inCond(off(fset, s.Pos())) {
			continue
		}
		if id, ok := s.Cond.(*ast.Ident); ok && (id.Name == "true" || id.Name == "false" || id.Name == "ok") {
			continue
		}
		lo, hi := off(fset, s.Cond.Pos()), off(fset, s.Cond.End())
		conds = append(conds, span{lo, hi})
		nm := fmt.Sprintf("c%d__", n)
		es = append(es, edit{off(fset, s.Pos()), off(fset, s.Pos()), nm + " := " + string(src[lo:hi]) + "\n"})
		es = append(es, edit{lo, hi, nm})
		n++
	}
	if n == 0 {
		return src, 0
	}
	return apply(src, es), n
}

// invert: `if c {A} else {B}` -> `if !(c) {B} else {A}` (recursively, also inside A and B).
func invert(fset *token.FileSet, f *ast.File, src []byte) ([]byte, int) {
	var cands []*ast.IfStmt
	for _, st := range collectIfs(f) {
		if _, ok := st.s.Else.(*ast.BlockStmt); ok {
			cands = append(cands, st.s)
		}
	}
	if len(cands) == 0 {
		return src, 0
	}
	sort.Slice(cands, func(i, j int) bool { return cands[i].Pos() < cands[j].Pos() })
	n := 0
	var render func(lo, hi int) string
	render = func(lo, hi int) string {
		var out strings.Builder
		at := lo
		for _, c := range cands {
			clo, chi := off(fset, c.Pos()), off(fset, c.End())
			if clo < at || chi > hi {
				continue
			}
			// skip candidates nested in the condition or init of an enclosing one: handled as raw text
			out.WriteString(string(src[at:clo]))
			condLo, condHi := off(fset, c.Cond.Pos()), off(fset, c.Cond.End())
			bodyLo, bodyHi := off(fset, c.Body.Pos()), off(fset, c.Body.End())
			el := c.Else.(*ast.BlockStmt)
			elLo, elHi := off(fset, el.Pos()), off(fset, el.End())
			out.WriteString(string(src[clo:condLo]))
			out.WriteString("!(" + string(src[condLo:condHi]) + ") ")
			out.WriteString(render(elLo, elHi))
			out.WriteString(" else ")
			out.WriteString(render(bodyLo, bodyHi))
			n++
			at = chi
		}
		out.WriteString(string(src[at:hi]))
		return out.String()
	}
	return []byte(render(0, len(src))), n
}

// flipcmp: `a OP b` -> `b OP' a` for comparisons whose operands are simple and free of effects (identifiers, field
// selections, literals, len/cap of such): the orientation of a comparison carries no meaning.
func simpleOperand(e ast.Expr) bool {
	switch x := e.(type) {
	case *ast.Ident:
		return true
	case *ast.BasicLit:
		return true
	case *ast.SelectorExpr:
		return simpleOperand(x.X)
	case *ast.ParenExpr:
		return simpleOperand(x.X)
	case *ast.CallExpr:
		if id, ok := x.Fun.(*ast.Ident); ok && (id.Name == "len" || id.Name == "cap") && len(x.Args) == 1 {
			return simpleOperand(x.Args[0])
		}
	}
	return false
}

func flipcmp(fset *token.FileSet, f *ast.File, src []byte) ([]byte, int) {
	mirror := map[token.Token]string{token.EQL: "==", token.NEQ: "!=", token.LSS: ">", token.LEQ: ">=", token.GTR: "<", token.GEQ: "<="}
	var es []edit
	ast.Inspect(f, func(n ast.Node) bool {
		// constant declarations and case clauses keep their form (a flipped untyped comparison is still fine, but
		// array lengths and the like must stay constant expressions - they do; nothing to exclude)
		be, ok := n.(*ast.BinaryExpr)
		if !ok {
			return true
		}
		op, isCmp := mirror[be.Op]
		if !isCmp || !simpleOperand(be.X) || !simpleOperand(be.Y) {
			return true
		}
		lo, hi := off(fset, be.Pos()), off(fset, be.End())
		x := string(src[off(fset, be.X.Pos()):off(fset, be.X.End())])
		y := string(src[off(fset, be.Y.Pos()):off(fset, be.Y.End())])
		es = append(es, edit{lo, hi, y + " " + op + " " + x})
		return false
	})
	if len(es) == 0 {
		return src, 0
	}
	return apply(src, es), len(es)
}

// range2index: `for _, v := range xs {` / `for i, v := range xs {` over a slice -> `for i := range xs { v := xs[i]`,
// where xs is a simple expression that the body does not assign to. The positions of the range statements over
// slices come from a type-checked load (sliceRanges).
var sliceRanges = map[string]map[int]bool{} // file -> offsets of RangeStmt whose X is a slice

func loadSliceRanges(repo string) {
	cfg := &packages.Config{Mode: packages.NeedName | packages.NeedFiles | packages.NeedSyntax | packages.NeedTypes | packages.NeedTypesInfo | packages.NeedImports | packages.NeedDeps, Dir: repo,
		Env: append(os.Environ(), "GOFLAGS=-mod=mod", "GOPROXY=off", "GOSUMDB=off", "GOWORK=off")}
	pkgs, err := packages.Load(cfg, "./...")
	if err != nil {
		fmt.Fprintln(os.Stderr, "load:", err)
		return
	}
	for _, pk := range pkgs {
		for _, f := range pk.Syntax {
			name := pk.Fset.Position(f.Pos()).Filename
			ast.Inspect(f, func(n ast.Node) bool {
				if ce, ok := n.(*ast.CallExpr); ok && len(ce.Args) == 1 {
					if se, ok := ce.Fun.(*ast.SelectorExpr); ok && (se.Sel.Name == "Before" || se.Sel.Name == "After") {
						if sel := pk.TypesInfo.Selections[se]; sel != nil && sel.Recv().String() == "time.Time" {
							if at, ok := pk.TypesInfo.Types[ce.Args[0]]; ok && at.Type.String() == "time.Time" {
								if timeCalls[name] == nil {
									timeCalls[name] = map[int]bool{}
								}
								timeCalls[name][pk.Fset.Position(ce.Pos()).Offset] = true
							}
						}
					}
				}
				rs, ok := n.(*ast.RangeStmt)
				if !ok {
					return true
				}
				if tv, ok := pk.TypesInfo.Types[rs.X]; ok {
					if _, isSlice := tv.Type.Underlying().(*types.Slice); isSlice {
						if sliceRanges[name] == nil {
							sliceRanges[name] = map[int]bool{}
						}
						sliceRanges[name][pk.Fset.Position(rs.Pos()).Offset] = true
					}
				}
				return true
			})
		}
	}
}

var r2iSerial int

func range2index(fset *token.FileSet, f *ast.File, src []byte, slices map[int]bool) ([]byte, int) {
	var es []edit
	ast.Inspect(f, func(n ast.Node) bool {
		rs, ok := n.(*ast.RangeStmt)
		if !ok || !slices[off(fset, rs.Pos())] || rs.Tok != token.DEFINE || rs.Value == nil || !simpleOperand(rs.X) {
			return true
		}
		v, ok := rs.Value.(*ast.Ident)
		if !ok || v.Name == "_" {
			return true
		}
		if _, isCall := rs.X.(*ast.CallExpr); isCall {
			return true
		}
		xs := string(src[off(fset, rs.X.Pos()):off(fset, rs.X.End())])
		// the body must not assign to xs (the range copy and xs would differ)
		assigned := false
		ast.Inspect(rs.Body, func(m ast.Node) bool {
			switch y := m.(type) {
			case *ast.AssignStmt:
				for _, l := range y.Lhs {
					ls := string(src[off(fset, l.Pos()):off(fset, l.End())])
					if ls == xs || strings.HasPrefix(xs, ls+".") || strings.HasPrefix(ls, xs+"[") {
						assigned = true
					}
				}
			case *ast.UnaryExpr:
				if y.Op == token.AND {
					assigned = true // an address taken in the body: leave the loop alone
				}
			case *ast.FuncLit:
				assigned = true // the per-iteration variable may be captured
			}
			return true
		})
		if assigned {
			return true
		}
		idx := ""
		if k, ok := rs.Key.(*ast.Ident); ok && k.Name != "_" {
			idx = k.Name
		} else {
			r2iSerial++
			idx = fmt.Sprintf("i%d__", r2iSerial)
		}
		head := "for " + idx + " := range " + xs + " {\n" + v.Name + " := " + xs + "[" + idx + "]\n"
		es = append(es, edit{off(fset, rs.Pos()), off(fset, rs.Body.Lbrace) + 1, head})
		return true
	})
	if len(es) == 0 {
		return src, 0
	}
	return apply(src, es), len(es)
}

// timeflip: `a.Before(b)` -> `(b).After(a)` and `a.After(b)` -> `(b).Before(a)` for time.Time values whose expressions
// are simple (no calls): the same comparison read from the other side.
var timeCalls = map[string]map[int]bool{}

func simpleTimeOperand(e ast.Expr) bool {
	switch x := e.(type) {
	case *ast.StarExpr:
		return simpleOperand(x.X)
	case *ast.ParenExpr:
		return simpleTimeOperand(x.X)
	}
	if _, isCall := e.(*ast.CallExpr); isCall {
		return false
	}
	return simpleOperand(e)
}

func timeflip(fset *token.FileSet, f *ast.File, src []byte, calls map[int]bool) ([]byte, int) {
	var es []edit
	ast.Inspect(f, func(n ast.Node) bool {
		ce, ok := n.(*ast.CallExpr)
		if !ok || !calls[off(fset, ce.Pos())] {
			return true
		}
		se := ce.Fun.(*ast.SelectorExpr)
		if !simpleTimeOperand(se.X) || !simpleTimeOperand(ce.Args[0]) {
			return true
		}
		other := "After"
		if se.Sel.Name == "After" {
			other = "Before"
		}
		x := string(src[off(fset, se.X.Pos()):off(fset, se.X.End())])
		y := string(src[off(fset, ce.Args[0].Pos()):off(fset, ce.Args[0].End())])
		es = append(es, edit{off(fset, ce.Pos()), off(fset, ce.End()), "(" + y + ")." + other + "(" + x + ")"})
		return false
	})
	if len(es) == 0 {
		return src, 0
	}
	return apply(src, es), len(es)
}

// forbreak: `for init; cond; post { body }` -> `for init; ; post { if !(cond) { break }; body }`: the loop test written
// as the first statement of the body.
func forbreak(fset *token.FileSet, f *ast.File, src []byte) ([]byte, int) {
	var es []edit
	ast.Inspect(f, func(n ast.Node) bool {
		fs, ok := n.(*ast.ForStmt)
		if !ok || fs.Cond == nil {
			return true
		}
		cond := string(src[off(fset, fs.Cond.Pos()):off(fset, fs.Cond.End())])
		es = append(es, edit{off(fset, fs.Cond.Pos()), off(fset, fs.Cond.End()), ""})
		if fs.Init == nil && fs.Post == nil {
			// `for cond {` -> `for {`
		}
		es = append(es, edit{off(fset, fs.Body.Lbrace) + 1, off(fset, fs.Body.Lbrace) + 1, "\nif !(" + cond + ") {\nbreak\n}\n"})
		return true
	})
	if len(es) == 0 {
		return src, 0
	}
	// `for init; ; post` needs its semicolons: a loop that had only a condition becomes `for {`, which the empty
	// replacement already gives; with init or post the semicolons were there before
	return apply(src, es), len(es) / 2
}
