#!/usr/bin/env python3
"""negvariants.py - broken variants of correct evolutions. When a recogniser is added so that a correct new way of
writing a mechanism is accepted (a hand-written escaper, a hand-written join, an append-style encoder ...), the
near misses of that new form are kept here: negvariants/<PROP>-<what>.diff, each a diff against HEAD that compiles.
Every one must make its property's check fail (in-memory overlay, /repo untouched). Exit 1 if one is silent."""
import glob, os, re, sys
sys.path.insert(0, os.path.dirname(os.path.abspath(__file__)))
import patchrun
bad = 0
for f in sorted(glob.glob("/verif/negvariants/*.diff")):
    prop = os.path.basename(f)[:3]
    st, out = patchrun.run(f, [prop])
    fired = sorted({re.search(r"rule=(\S+)|FLOOR construct=(\S+)", l).group(0) for l in out.get(prop, []) if re.search(r"rule=(\S+)|FLOOR construct=(\S+)", l)})
    if st != "ok" or not fired:
        bad += 1
        print("SILENT" if st == "ok" else st.upper(), os.path.basename(f))
    else:
        print("FIRED ", os.path.basename(f), "by", ", ".join(fired)[:160])
sys.exit(1 if bad else 0)
