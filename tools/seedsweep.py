#!/usr/bin/env python3
"""seedsweep.py - re-run every stored seeded change against the current checks.
For each /verif/seeded/<name>/: apply patch.diff to /repo (git apply), run `bin/sa -prop P -no-evidence` for the
seed's property (and the extra properties named in caught_by), undo (git checkout -- .). Prints one line per seed:
  CAUGHT <name> by <rules> | MISSED <name> | STALE <name> (patch no longer applies: the code it changes was repaired/rewritten)
Never writes evidence; /repo is left clean."""
import json, os, re, subprocess, sys
root = "/verif/seeded"
res = []
assert subprocess.run(["git", "-C", "/repo", "status", "--porcelain"], capture_output=True, text=True).stdout.strip() == "", "/repo not clean"
for name in sorted(os.listdir(root)):
    d = os.path.join(root, name)
    meta = json.load(open(os.path.join(d, "meta.json")))
    props = [meta["property"]] + [p for p in re.findall(r"\bC\d\d\b", meta.get("caught_by", "")) if p != meta["property"]]
    props = list(dict.fromkeys(props))
    patch = os.path.join(d, "patch.diff")
    if subprocess.run(["git", "-C", "/repo", "apply", "--check", patch], capture_output=True).returncode != 0:
        patch = os.path.join(d, "patch.rebased.diff")
        if not os.path.exists(patch) or subprocess.run(["git", "-C", "/repo", "apply", "--check", patch], capture_output=True).returncode != 0:
            res.append(("STALE", name, "")); print("STALE ", name, flush=True); continue
    subprocess.run(["git", "-C", "/repo", "apply", patch], check=True)
    try:
        rules = set()
        for p in props:
            out = subprocess.run(["/verif/bin/sa", "-prop", p, "-no-evidence"], capture_output=True, text=True).stdout
            for m in re.finditer(r"CONTROL-(FAIL rule=(\S+)|FLOOR construct=(\S+))", out):
                r = m.group(2) or ("floor:" + m.group(3))
                rules.add(p + " " + r)
    finally:
        subprocess.run(["git", "-C", "/repo", "checkout", "--", "."], check=True)
        subprocess.run(["git", "-C", "/repo", "clean", "-fdq"], check=True)
    # the one open static finding shows up in control mode on every run of C20: not a catch
    rules = {r for r in rules if "registered-functions-stateless" not in r}
    if rules:
        res.append(("CAUGHT", name, ", ".join(sorted(rules)))); print("CAUGHT", name, "by", ", ".join(sorted(rules)), flush=True)
    else:
        res.append(("MISSED", name, "")); print("MISSED", name, flush=True)
import collections
print(collections.Counter(r[0] for r in res))
