#!/usr/bin/env python3
"""seedsweep.py - re-run every stored seeded change against the current checks, as in-memory overlays
(tools/patchrun.py; /repo is not modified). For each /verif/seeded/<name>/: patch.diff (or patch.rebased.diff when
later fix: commits moved the code under it) is applied to scratch copies of the files it touches and the seed's
property (plus the properties named in caught_by) is checked. One line per seed:
  CAUGHT <name> by <rules> | MISSED <name> | STALE <name> (no longer applies: the code it changes was repaired/rewritten)"""
import json, os, re, sys, collections, concurrent.futures
sys.path.insert(0, os.path.dirname(os.path.abspath(__file__)))
import patchrun
root = "/verif/seeded"
def one(name):
    d = os.path.join(root, name)
    meta = json.load(open(os.path.join(d, "meta.json")))
    props = list(dict.fromkeys([meta["property"]] + re.findall(r"\bC\d\d\b", meta.get("caught_by", ""))))
    for pn in ("patch.diff", "patch.rebased.diff"):
        f = os.path.join(d, pn)
        if not os.path.exists(f): continue
        st, out = patchrun.run(f, props)
        if st == "ok":
            rules = set()
            for p in props:
                for l in out[p]:
                    m = re.search(r"CONTROL-(FAIL rule=(\S+)|FLOOR construct=(\S+))", l)
                    if m: rules.add(p + " " + (m.group(2) or "floor:" + m.group(3)))
            return name, ("CAUGHT" if rules else "MISSED"), ", ".join(sorted(rules))
    return name, "STALE", ""
res = []
with concurrent.futures.ThreadPoolExecutor(10) as ex:
    for name, st, rules in ex.map(one, sorted(os.listdir(root))):
        res.append(st)
        print(st.ljust(6), name, ("by " + rules) if rules else "", flush=True)
print(collections.Counter(res))
