#!/usr/bin/env python3
"""mutsweep.py FILE... - detection measured mechanically: every one-site mutant of the given repo-relative files
(bin/mutgen: < <-> <=, > <-> >=, == <-> !=, && <-> ||, dropped !) is handed to the analyzer as an overlay and ALL 20
checks run on it. A mutant is 'killed' when some obligation fails. Survivors are listed with file:line and the edit;
they are equivalent mutants, mutants the test suite kills, mutants outside every property - or blind spots.
Nothing is claimed from the number; the list is read by hand (DESIGN 9.11)."""
import os, re, subprocess, sys, tempfile, shutil, concurrent.futures, json
props = ",".join("C%02d" % i for i in range(1, 21))
base = "/dev/shm" if os.path.isdir("/dev/shm") else None
def run(file):
    tmp = tempfile.mkdtemp(prefix="verif-mut-", dir=base)
    res = []
    try:
        out = subprocess.run(["/verif/bin/mutgen", "-file", "/repo/" + file, "-out", tmp], capture_output=True, text=True).stdout
        muts = [l.split("\t") for l in out.splitlines()]
        def one(m):
            mid, line, kind, before, after = m
            r = subprocess.run(["/verif/bin/sa", "-prop", props, "-no-evidence", "-overlay", "%s=%s/%s.go" % (file, tmp, mid)], capture_output=True, text=True).stdout
            if "CONTROL-SUMMARY" not in r:
                return (file, line, kind, before, after, "does-not-build", [])
            rules = sorted({(l.split("]")[0][1:] + " " + (re.search(r"rule=(\S+)", l).group(1) if "rule=" in l else "floor")) for l in r.splitlines() if re.search(r"CONTROL-(FAIL|FLOOR)", l) and "registered-functions-stateless" not in l})
            return (file, line, kind, before, after, "killed" if rules else "survived", rules)
        with concurrent.futures.ThreadPoolExecutor(int(os.environ.get("VERIF_JOBS", "8"))) as ex:
            res = list(ex.map(one, muts))
    finally:
        shutil.rmtree(tmp, ignore_errors=True)
    return res
allres = []
for f in sys.argv[1:]:
    allres += run(f)
k = sum(1 for r in allres if r[5] == "killed"); s = sum(1 for r in allres if r[5] == "survived"); nb = sum(1 for r in allres if r[5] == "does-not-build")
for r in allres:
    print("%-9s %s:%s %s `%s` -> `%s` %s" % (r[5].upper(), r[0], r[1], r[2], r[3], r[4], "; ".join(r[6])[:200]))
print("TOTAL mutants=%d killed=%d survived=%d does-not-build=%d" % (len(allres), k, s, nb))
