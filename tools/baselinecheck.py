#!/usr/bin/env python3
"""baselinecheck.py [dir] - run the pinned test command of /root/.vp/BASELINE.json in dir (default /repo) and compare
with its stable_pass list. Not a check of any property (the checks never run the code): used after every fix: commit."""
import json, subprocess, sys, os
d = sys.argv[1] if len(sys.argv) > 1 else "/repo"
env = dict(os.environ, GOFLAGS="-mod=mod", GOPROXY="off", GOSUMDB="off", GOTOOLCHAIN="local")
out = subprocess.run(["go", "test", "-mod=mod", "-json", "-vet=off", "-count=1", "-timeout", "25m", "./..."], cwd=d, env=env, capture_output=True, text=True).stdout
want = set(json.load(open("/root/.vp/BASELINE.json"))["stable_pass"])
passed, failed = set(), set()
for l in out.splitlines():
    try: e = json.loads(l)
    except Exception: continue
    if e.get("Test") and e.get("Action") in ("pass", "fail"):
        (passed if e["Action"] == "pass" else failed).add(e["Package"] + "::" + e["Test"])
print("pinned", len(want), "passed", len(want & passed), "not passed", len(want - passed))
for m in sorted(want - passed)[:30]:
    print("  ", "FAILED" if m in failed else "ABSENT", m)
sys.exit(0 if want <= passed else 1)
