#!/usr/bin/env python3
"""Run the checker self-test controls of one property, each as an overlay mutant in its own process.
Prints a JSON summary. Usage: controls.py PROP [jobs]"""
import sys, os, json, subprocess, tempfile, concurrent.futures
sys.path.insert(0, "/verif/sa/controls")
from controls import CONTROLS
prop = sys.argv[1]; jobs = int(sys.argv[2]) if len(sys.argv) > 2 else 8
repo = os.environ.get("VERIF_REPO", "/repo")
def run(c):
    p, cid, rel, old, new, rule = c
    try:
        src = open(os.path.join(repo, rel)).read()
    except OSError:
        return {"id": cid, "status": "skipped", "why": "file missing"}
    if old not in src:
        return {"id": cid, "status": "skipped", "why": "source text changed (pattern not found)"}
    with tempfile.NamedTemporaryFile("w", suffix=".go", delete=False, dir="/dev/shm") as f:
        f.write(src.replace(old, new, 1)); tmp = f.name
    try:
        r = subprocess.run(["/verif/bin/sa", "-prop", p, "-repo", repo, "-no-evidence", "-overlay", f"{rel}={tmp}"], capture_output=True, text=True, timeout=300)
    finally:
        os.unlink(tmp)
    out = r.stdout
    if "checker-integrity: cannot load" in out:
        return {"id": cid, "status": "skipped", "why": "mutant does not type-check on this tree"}
    fired = [l for l in out.splitlines() if l.startswith("CONTROL-FAIL") and f"rule={rule} " in l]
    if fired:
        return {"id": cid, "status": "fired", "rule": rule, "report": fired[0][:300]}
    return {"id": cid, "status": "missed", "rule": rule, "output": out[-400:]}
mine = [c for c in CONTROLS if c[0] == prop]
with concurrent.futures.ThreadPoolExecutor(jobs) as ex:
    res = list(ex.map(run, mine))
print(json.dumps({"controls": res, "fired": sum(r["status"] == "fired" for r in res), "missed": sum(r["status"] == "missed" for r in res), "skipped": sum(r["status"] == "skipped" for r in res)}, indent=1))
