#!/usr/bin/env python3
"""patchrun.py - run the checks on /repo's current tree *with a patch applied in memory*: the files the patch touches
are copied to a scratch directory outside /repo and /verif, patched there with `git apply`, and handed to the analyzer
as go/packages overlays. /repo itself is never modified.

  run(patch, props, repo="/repo") -> (status, {prop: [failing obligation lines]})
  status: "ok" | "does-not-apply" """
import os, re, shutil, subprocess, tempfile

def run(patch, props, repo="/repo"):
    patch = os.path.abspath(patch)
    txt = open(patch, errors="replace").read()
    files = sorted(set(re.findall(r"^diff --git a/(\S+) b/\S+", txt, re.M)))
    tmp = tempfile.mkdtemp(prefix="verif-overlay-", dir=os.environ.get("TMPDIR", "/dev/shm" if os.path.isdir("/dev/shm") else None))
    try:
        for f in files:
            src = os.path.join(repo, f)
            dst = os.path.join(tmp, f)
            os.makedirs(os.path.dirname(dst), exist_ok=True)
            if os.path.exists(src):
                shutil.copy(src, dst)
        if subprocess.run(["git", "apply", "--unsafe-paths", patch], cwd=tmp, capture_output=True).returncode != 0:
            return "does-not-apply", {}
        pairs = ",".join("%s=%s" % (f, os.path.join(tmp, f)) for f in files if f.endswith(".go") and not f.endswith("_test.go") and os.path.exists(os.path.join(tmp, f)))
        out = {}
        if len(props) > 1:
            # one analyzer process for all properties: the program is loaded once (sa -prop A,B,... -no-evidence)
            r = subprocess.run(["/verif/bin/sa", "-prop", ",".join(props), "-repo", repo, "-no-evidence", "-overlay", pairs], capture_output=True, text=True).stdout
            for p in props:
                mine = [l[len(p) + 3:] for l in r.splitlines() if l.startswith("[%s] " % p)]
                out[p] = [l for l in mine if re.match(r"CONTROL-(FAIL|FLOOR)", l) and "registered-functions-stateless" not in l]
                if not any("CONTROL-SUMMARY" in l for l in mine):
                    out[p].append("CONTROL-FAIL analyzer did not complete: " + r[-300:].replace("\n", " | "))
            return "ok", out
        for p in props:
            r = subprocess.run(["/verif/bin/sa", "-prop", p, "-repo", repo, "-no-evidence", "-overlay", pairs], capture_output=True, text=True).stdout
            out[p] = [l for l in r.splitlines() if re.match(r"CONTROL-(FAIL|FLOOR)", l) and "registered-functions-stateless" not in l]
            if "CONTROL-SUMMARY" not in r:
                out[p].append("CONTROL-FAIL analyzer did not complete: " + r[-300:].replace("\n", " | "))
        return "ok", out
    finally:
        shutil.rmtree(tmp, ignore_errors=True)
