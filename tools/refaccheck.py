#!/usr/bin/env python3
"""refaccheck.py <patch>... - false-alarm test: apply a behaviour-preserving refactoring to /repo, run ALL checks
(`bin/sa -prop Cxx -no-evidence`), undo. Any CONTROL-FAIL / CONTROL-FLOOR line is a false alarm of the machinery
(the one open static finding of C20 is ignored). /repo is left clean; nothing is written under /verif."""
import subprocess, sys, re, concurrent.futures
props = ["C%02d" % i for i in range(1, 21)]
def run(p):
    return p, subprocess.run(["/verif/bin/sa", "-prop", p, "-no-evidence"], capture_output=True, text=True).stdout
rc = 0
for patch in [__import__("os").path.abspath(x) for x in sys.argv[1:]]:
    assert subprocess.run(["git", "-C", "/repo", "status", "--porcelain"], capture_output=True, text=True).stdout.strip() == "", "/repo not clean"
    if subprocess.run(["git", "-C", "/repo", "apply", patch]).returncode != 0:
        print("DOES-NOT-APPLY", patch); continue
    try:
        b = subprocess.run(["go", "build", "./..."], cwd="/repo", capture_output=True, text=True,
                           env=dict(__import__("os").environ, GOFLAGS="-mod=mod", GOPROXY="off", GOSUMDB="off", GOTOOLCHAIN="local"))
        if b.returncode != 0:
            print("DOES-NOT-BUILD", patch, b.stderr[:300]); continue
        alarms = []
        with concurrent.futures.ThreadPoolExecutor(5) as ex:
            for p, out in ex.map(run, props):
                for l in out.splitlines():
                    if re.match(r"CONTROL-(FAIL|FLOOR)", l) and "registered-functions-stateless" not in l:
                        alarms.append(p + " " + l[:260])
        if alarms:
            rc = 1
            print("ALARM", patch)
            for a in alarms: print("   ", a)
        else:
            print("SILENT", patch)
    finally:
        subprocess.run(["git", "-C", "/repo", "checkout", "--", "."], check=True)
        subprocess.run(["git", "-C", "/repo", "clean", "-fdq"], check=True)
sys.exit(rc)
