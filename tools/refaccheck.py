#!/usr/bin/env python3
"""refaccheck.py <patch>... - false-alarm test: run ALL 20 checks on /repo's tree with a behaviour-preserving
refactoring applied as an in-memory overlay (tools/patchrun.py; /repo is not modified). Any failing obligation is a
false alarm of the machinery (the one open static finding of C20 is ignored). Exit 1 if any patch alarms."""
import os, sys, concurrent.futures
sys.path.insert(0, os.path.dirname(os.path.abspath(__file__)))
import patchrun
props = ["C%02d" % i for i in range(1, 21)]
rc = 0
def one(patch):
    return patch, patchrun.run(patch, props)
with concurrent.futures.ThreadPoolExecutor(int(os.environ.get("VERIF_JOBS", "10"))) as ex:
    for patch, (st, out) in ex.map(one, sys.argv[1:]):
        if st != "ok":
            print("DOES-NOT-APPLY", patch); continue
        alarms = [p + " " + l[:260] for p in props for l in out[p]]
        if alarms:
            rc = 1
            print("ALARM", patch)
            for a in alarms: print("   ", a)
        else:
            print("SILENT", patch)
sys.exit(rc)
