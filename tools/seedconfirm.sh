#!/bin/bash
# seedconfirm.sh <ID> : confirm a seeded change produced in $SEEDROOT/<ID> (default /tmp/seed/<ID>) (change applied + demo test in place):
#  1. demo fails with the change, 2. demo passes without it, 3. the whole existing suite passes with the change.
# Writes /tmp/seed/<ID>.out/confirm.log
set -u
ID="$1"; ROOT="${SEEDROOT:-/tmp/seed}"; W=$ROOT/$ID; OUT=$ROOT/$ID.out
export GOFLAGS=-mod=mod GOPROXY=off GOSUMDB=off GOTOOLCHAIN=local
cd "$W" || exit 2
DEMO=$(head -1 "$OUT/DEMO_PATH.txt" | awk "{print \$1}" | tr -d "\r")
CMD=$(grep -o "go test.*" "$OUT/DEMO_PATH.txt" | head -1)
{
echo "== demo file: $DEMO ; cmd: $CMD"
git status --short | head
# (no git stash here: the stash is shared by all worktrees of a repository)
echo "== 1. demo WITH change (expect FAIL)"
for i in 1 2 3; do eval "$CMD" 2>&1 | grep -E "^(ok|FAIL|---)" | head -3; done
echo "== 2. demo WITHOUT change (expect ok)"
git diff -- . ':!*_test.go' > $ROOT/$ID.cur.diff
git apply -R $ROOT/$ID.cur.diff
for i in 1 2 3; do eval "$CMD" 2>&1 | grep -E "^(ok|FAIL|---)" | head -3; done
git apply $ROOT/$ID.cur.diff
echo "== 3. existing suite WITH change (demo moved aside)"
mv "$DEMO" $ROOT/$ID.demo.keep
go build ./... && go test -vet=off -count=1 -timeout 25m ./... 2>&1 | grep -E "^(ok|FAIL|---|panic)" | grep -v "no test files" 
mv $ROOT/$ID.demo.keep "$DEMO"
echo "== patch identical to deliverable: $(diff <(git diff -- . ':!*_test.go') $OUT/patch.diff >/dev/null && echo yes || echo NO)"
} > "$OUT/confirm.log" 2>&1
tail -30 "$OUT/confirm.log"
