#!/usr/bin/env python3
"""featprompt.py PROP ROUND : prompt for an independent sub-agent that writes TWO property-preserving
functional changes (a small feature, an optimisation, or the repair of a defect) in the code a property
is anchored in. Unlike the refactorings these may change behaviour - but never in a way that breaks the
property. Used as a false-alarm test of the checks on code that evolves. Nothing from /verif is shown."""
import json, sys
prop, rnd = sys.argv[1], sys.argv[2]
P = None
for l in open("/verif/properties.jsonl"):
    d = json.loads(l)
    if d["id"] == prop: P = d
sid = f"{prop}g{rnd}"
import glob, re
done = []
for f in sorted(glob.glob(f"/verif/refactors/{prop}-g*-NOTES.md")):
    done += re.findall(r"^## change\d\.diff - (.*)$", open(f).read(), re.M)
already = ""
if done:
    already = "\nChanges of this kind that others have ALREADY written for this property - choose something different in kind and place:\n" + "".join(f"  - {d}\n" for d in done)
print(f"""You are helping test a static verification tool for the Go library rulego/streamsql (an in-memory SQL stream
processing engine). The tool must stay SILENT on code that still satisfies a property, also when that code EVOLVES.
I need TWO independent, realistic changes a maintainer could commit to the code that carries the property below -
each one a small optimisation, a small feature, better diagnostics, or the repair of a real defect you find there -
that are CORRECT and leave the property TRUE for every input and schedule.

Your scratch checkout is the git worktree /tmp/feat/{sid} (already created; work ONLY there, never touch /repo or
/verif, and do not read anything under /verif). Environment for every shell call (no network):
  export GOFLAGS=-mod=mod GOPROXY=off GOSUMDB=off GOTOOLCHAIN=local

The property (JSON; read the code it is anchored in):
{json.dumps(P, indent=1, ensure_ascii=False)}

{already}
Rules for each change:
* It touches the functions that implement the property's mechanisms (see anchors), 30-150 changed lines, and is the
  kind of commit that appears in this repository's history: e.g. avoid an allocation on the hot path, replace a
  quadratic scan, add a counter to GetStats, add a debug log line, tighten an error message, handle an input the
  code currently mishandles (only if you are sure of the correct behaviour), add a config option with a default
  that keeps today's behaviour, cache something that is safe to cache (keyed by the complete input), pool an
  object that is provably not retained.
* It must be CORRECT. The property must still hold afterwards for ALL inputs / interleavings - argue this in the
  notes. If you are not sure, choose a different change. Do not "optimise" by weakening locking, skipping checks,
  or approximating results.
* Do NOT rename, delete or change the signature of existing functions, methods, types, struct fields, constants or
  package-level variables (adding new ones is fine). You may add tests, but deliver them separately (see below).
* The two changes are independent alternatives: each is a diff against the unmodified HEAD, not stacked.
* Each must compile, `go vet ./...` unaffected, and the ENTIRE existing suite must pass with it:
    go test -vet=off -count=1 -timeout 25m ./...
  (a few timing tests in package window such as TestOverflowStrategies are occasionally flaky under load - re-run a
  failing package alone before concluding).

Procedure: for k in 1,2: make the edit, build, run the suite, `git diff -- . ':!*_test.go' > /tmp/feat/{sid}.out/change<k>.diff`
(library change only), then `git checkout -- .` and remove new untracked files before the next one.

Deliverables under /tmp/feat/{sid}.out/ (create the directory): change1.diff, change2.diff and NOTES.md with, per
change, a heading line `## change<k>.diff - <one-line summary>`, what it does, why it is correct and why the
property still holds, and what you ran. Leave the worktree clean (HEAD) at the end. Do not commit.""")
