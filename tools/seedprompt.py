#!/usr/bin/env python3
"""seedprompt.py PROP ROUND : print the prompt given to an independent sub-agent that writes a seeded change.

The prompt contains the property text, the scratch worktree and, as "already tried", one line per stored
seed of that property (what the change was, never which check reports it). Nothing else from /verif."""
import json, sys, os, glob
prop, rnd = sys.argv[1], sys.argv[2]
P = None
for l in open("/verif/properties.jsonl"):
    d = json.loads(l)
    if d["id"] == prop: P = d
sid = f"{prop}r{rnd}"
tried = []
for m in sorted(glob.glob(f"/verif/seeded/{prop}*/meta.json")):
    tried.append("- " + json.load(open(m))["what"])
print(f"""You are helping test a verification tool for the Go library rulego/streamsql (an in-memory SQL stream
processing engine). I need ONE realistic code change ("seeded bug") that breaks a stated semantic property of the
library while the code still compiles and the whole existing test suite still passes.

Your scratch checkout is the git worktree /tmp/seed/{sid} (already created; work ONLY there, never touch /repo or
/verif, and do not read anything under /verif). Environment for every shell call (no network):
  export GOFLAGS=-mod=mod GOPROXY=off GOSUMDB=off GOTOOLCHAIN=local

The property (JSON, read the code it is anchored in):
{json.dumps(P, indent=1, ensure_ascii=False)}

What I want:
1. A change to NON-test source files of the library that makes the property false for some input / schedule /
   history. It must look like something a maintainer could plausibly commit (an optimisation, a refactoring gone
   subtly wrong, a "simplification", a caching layer, a reordered step, a helper reused where it does not fit) - not
   sabotage such as deleting a feature or returning constants. Prefer a change that needs something specific to
   manifest: a particular interleaving, a multi-step sequence, an unusual input, a boundary value, or two
   cooperating sites that each look fine alone. A change that ordinary use would expose at once is useless.
2. The change must compile (go build ./... and go vet ./... unaffected) and the ENTIRE existing test suite must still
   pass:  go test -vet=off -count=1 -timeout 25m ./...   (takes a few minutes; a few timing tests in package window
   such as TestOverflowStrategies are occasionally flaky under load - re-run a failing package alone before concluding).
3. A demonstration: ONE new Go test file (name it *_demo_test.go, in the package it exercises, using the public API
   where possible) with a deterministic test that FAILS with your change and PASSES on the unmodified checkout.
   Run it 3 times each way. No sleeps longer than needed; event-time rows with explicit timestamps are preferable
   to wall-clock timing.
4. Mechanisms already used by earlier seeded changes for this property - do NOT repeat these, find a different
   mechanism and preferably a different function:
{chr(10).join(tried) if tried else '- (none)'}

Deliverables, all under /tmp/seed/{sid}.out/ (create the directory):
  patch.diff      - `git diff -- . ':!*_test.go'` from the worktree root (only the library change, no test file)
  DEMO_PATH.txt   - first line: the demo test file's path relative to the worktree root; second line: the exact
                    command that runs it, e.g. `go test -vet=off -count=1 -run TestXxx ./window/`
  NOTES.md        - what the change breaks, what it needs in order to manifest, why the existing tests do not notice,
                    and (separately) anything you noticed in the UNMODIFIED code that already violates the property.
Leave the worktree with the change applied and the demo test file in place. Do not commit anything.
Finish with a short summary: the mechanism in two sentences, and the three confirmations (demo fails with the
change, passes without it, full suite passes with it).""")
