#!/usr/bin/env python3
"""mechcheck.py [-t wrap,namedbool,invert] [-only REGEX] [PROP...] - systematic false-alarm test.

bin/mechrefac applies one mechanical, behaviour-preserving transformation to EVERY function of /repo's
non-test sources (or to the files matching -only) and the result is handed to the analyzer as in-memory
overlays (/repo is not modified). Every failing obligation is a false alarm of the machinery.
Prints one line per (transformation, property) with the failing obligations; exit 1 if any."""
import os, re, subprocess, sys, tempfile, shutil, concurrent.futures
args = sys.argv[1:]
ts = ["wrap", "namedbool", "invert", "flipcmp", "range2index", "timeflip", "forbreak"]; only = ""; skipfn = ""
while args and args[0].startswith("-"):
    if args[0] == "-t": ts = args[1].split(","); args = args[2:]
    elif args[0] == "-only": only = args[1]; args = args[2:]
    elif args[0] == "-skipfn": skipfn = args[1]; args = args[2:]
    else: sys.exit("unknown flag " + args[0])
props = args or ["C%02d" % i for i in range(1, 21)]
env = dict(os.environ, GOFLAGS="-mod=mod", GOPROXY="off", GOSUMDB="off", GOTOOLCHAIN="local", GOWORK="off")
here = os.path.dirname(os.path.abspath(__file__))
if not os.path.exists("/verif/bin/mechrefac") or os.path.getmtime("/verif/bin/mechrefac") < os.path.getmtime(here + "/mechrefac/main.go"):
    subprocess.run(["go", "build", "-o", "/verif/bin/mechrefac", "."], cwd=here + "/mechrefac", env=env, check=True)
rc = 0
base = "/dev/shm" if os.path.isdir("/dev/shm") else None
for t in ts:
    tmp = tempfile.mkdtemp(prefix="verif-mech-", dir=base)
    try:
        cmd = ["/verif/bin/mechrefac", "-t", t, "-repo", "/repo", "-out", tmp]
        if only: cmd += ["-only", only]
        if skipfn: cmd += ["-skipfn", skipfn]
        r = subprocess.run(cmd, capture_output=True, text=True)
        pairs = r.stdout.strip()
        print("#", r.stderr.strip(), flush=True)
        # one analyzer process for all properties (the transformed program is loaded once)
        out = subprocess.run(["/verif/bin/sa", "-prop", ",".join(props) if len(props) > 1 else props[0] + "," + props[0], "-no-evidence", "-overlay", pairs], capture_output=True, text=True).stdout
        for p in props:
            mine = [l[len(p) + 3:] for l in out.splitlines() if l.startswith("[%s] " % p)]
            bad = [l for l in mine if re.match(r"CONTROL-(FAIL|FLOOR)", l) and "registered-functions-stateless" not in l]
            if not any("CONTROL-SUMMARY" in l for l in mine): bad.append("CONTROL-FAIL analyzer did not complete: " + out[-400:].replace("\n", " | "))
            if bad:
                rc = 1
                print("ALARM", t, p, len(bad))
                for b in bad: print("    " + b[:300])
            else:
                print("SILENT", t, p)
            sys.stdout.flush()
    finally:
        shutil.rmtree(tmp, ignore_errors=True)
sys.exit(rc)
