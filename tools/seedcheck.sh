#!/bin/bash
# seedcheck.sh <ID> <patch.diff> : apply a seeded change to /repo, run the property's quick check (and all
# other properties' checks, to see cross-detection), undo the change. Never commits anything in /repo.
set -u
ID="$1"; PATCH="$2"
cd /repo || exit 2
if [ -n "$(git status --porcelain)" ]; then echo "/repo not clean"; exit 2; fi
git apply "$PATCH" || { echo "patch does not apply"; exit 2; }
export GOFLAGS=-mod=mod GOPROXY=off GOSUMDB=off GOTOOLCHAIN=local
go build ./... 2>&1 | head -5
cd /verif
for p in ${3:-$ID}; do
  ./bin/sa -prop $p -no-evidence | grep -E "CONTROL-FAIL|CONTROL-FLOOR|checker-integrity" | cut -c1-330
  ./bin/sa -prop $p -no-evidence | tail -1
done
git -C /repo checkout -- . ; git -C /repo status --porcelain | head -3
