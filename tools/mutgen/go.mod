module mutgen

go 1.21
