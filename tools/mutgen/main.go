// mutgen: one-site mutants of a Go file. Prints one line per mutant: <id>\t<line>\t<kind>\t<before>\t<after> and
// writes the mutated file to <out>/<id>.go. Kinds: boundary (< <-> <=, > <-> >=), negate (== <-> !=), logic (&& <-> ||),
// dropnot (!x -> x). Mutants inside const declarations are skipped.
package main

import (
	"flag"
	"fmt"
	"go/ast"
	"go/parser"
	"go/token"
	"os"
	"path/filepath"
)

func main() {
	file := flag.String("file", "", "source file")
	out := flag.String("out", "", "output dir")
	flag.Parse()
	src, err := os.ReadFile(*file)
	if err != nil {
		panic(err)
	}
	fset := token.NewFileSet()
	f, err := parser.ParseFile(fset, *file, src, 0)
	if err != nil {
		panic(err)
	}
	swap := map[token.Token]struct{ to, kind string }{
		token.LSS: {"<=", "boundary"}, token.LEQ: {"<", "boundary"}, token.GTR: {">=", "boundary"}, token.GEQ: {">", "boundary"},
		token.EQL: {"!=", "negate"}, token.NEQ: {"==", "negate"}, token.LAND: {"||", "logic"}, token.LOR: {"&&", "logic"},
	}
	id := 0
	emit := func(lo, hi int, text, kind string, pos token.Pos) {
		id++
		m := append(append(append([]byte{}, src[:lo]...), text...), src[hi:]...)
		os.WriteFile(filepath.Join(*out, fmt.Sprintf("%d.go", id)), m, 0o644)
		fmt.Printf("%d\t%d\t%s\t%s\t%s\n", id, fset.Position(pos).Line, kind, string(src[lo:hi]), text)
	}
	var fn string
	ast.Inspect(f, func(n ast.Node) bool {
		switch x := n.(type) {
		case *ast.GenDecl:
			if x.Tok == token.CONST {
				return false
			}
		case *ast.FuncDecl:
			fn = x.Name.Name
			_ = fn
		case *ast.BinaryExpr:
			if s, ok := swap[x.Op]; ok {
				lo := fset.Position(x.OpPos).Offset
				emit(lo, lo+len(x.Op.String()), s.to, s.kind, x.OpPos)
			}
		case *ast.CallExpr:
			// time comparisons: a.Before(b) -> !a.After(b) (< becomes <=), a.After(b) -> !a.Before(b) (> becomes >=)
			if se, ok := x.Fun.(*ast.SelectorExpr); ok && len(x.Args) == 1 && (se.Sel.Name == "Before" || se.Sel.Name == "After") {
				other := "After"
				if se.Sel.Name == "After" {
					other = "Before"
				}
				lo, hi := fset.Position(x.Pos()).Offset, fset.Position(x.End()).Offset
				recv := string(src[fset.Position(se.X.Pos()).Offset:fset.Position(se.X.End()).Offset])
				arg := string(src[fset.Position(x.Args[0].Pos()).Offset:fset.Position(x.Args[0].End()).Offset])
				emit(lo, hi, "!"+recv+"."+other+"("+arg+")", "timebound", x.Pos())
			}
		case *ast.UnaryExpr:
			if x.Op == token.NOT {
				lo := fset.Position(x.OpPos).Offset
				emit(lo, lo+1, "", "dropnot", x.OpPos)
			}
		}
		return true
	})
}
