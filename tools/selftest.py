#!/usr/bin/env python3
"""selftest.py PROP - checker self-tests of the thorough tier, all run on overlays (never touching /repo):
  * every stored behaviour-preserving refactoring of PROP's code (refactors/PROP-*.diff) must leave ALL of PROP's
    rules silent (a failing obligation is a false alarm of the machinery);
  * every stored near miss of a correct new form (negvariants/PROP-*.diff) must be reported by PROP's check;
  * every stored seeded change of PROP (seeded/PROP*/patch.diff or patch.rebased.diff) that applies to the current
    tree must be reported by PROP's check, unless meta.json declares it out of reach.
Prints JSON; exit status 0 always (the caller records failures as checker-integrity failures)."""
import glob, json, os, sys
sys.path.insert(0, os.path.dirname(os.path.abspath(__file__)))
import patchrun
prop = sys.argv[1]
res = {"refactorings": {"silent": 0, "alarmed": [], "stale": 0}, "near_misses": {"fired": 0, "silent": [], "stale": 0}, "seeded": {"caught": 0, "missed": [], "declared_out_of_reach": [], "stale": 0}}
for p in sorted(glob.glob("/verif/refactors/%s-*.diff" % prop)):
    st, out = patchrun.run(p, [prop])
    if st != "ok":
        res["refactorings"]["stale"] += 1
    elif out[prop]:
        res["refactorings"]["alarmed"].append({"patch": os.path.basename(p), "first": out[prop][0][:300]})
    else:
        res["refactorings"]["silent"] += 1
for p in sorted(glob.glob("/verif/negvariants/%s-*.diff" % prop)):
    st, out = patchrun.run(p, [prop])
    if st != "ok":
        res["near_misses"]["stale"] += 1
    elif out[prop]:
        res["near_misses"]["fired"] += 1
    else:
        res["near_misses"]["silent"].append(os.path.basename(p))
for d in sorted(glob.glob("/verif/seeded/%s*" % prop)):
    meta = json.load(open(os.path.join(d, "meta.json")))
    st, out = "does-not-apply", {}
    for name in ("patch.diff", "patch.rebased.diff"):
        f = os.path.join(d, name)
        if os.path.exists(f):
            st, out = patchrun.run(f, [prop])
            if st == "ok":
                break
    name = os.path.basename(d)
    if st != "ok":
        res["seeded"]["stale"] += 1
    elif out[prop]:
        res["seeded"]["caught"] += 1
    elif "not caught" in meta.get("caught_by", "").lower() or "out of reach" in meta.get("caught_by", "").lower():
        res["seeded"]["declared_out_of_reach"].append(name)
    else:
        res["seeded"]["missed"].append(name)
print(json.dumps(res))
