package streamsql

// Property C20 audit: "instances do not influence each other".
//
// Every test below builds the "run alone" reference by re-executing this test binary
// (a fresh process = empty expression cache, pristine function registry) and running
// only instance B there. It then runs instance A followed by instance B in this
// process and requires B to produce what it produced alone.
//
// Place this file in the repository root (package streamsql) and run:
//   go test -run 'TestC20_' -count=1 .

import (
	"encoding/json"
	"fmt"
	"os"
	"os/exec"
	"strings"
	"sync"
	"testing"
	"time"

	"github.com/rulego/streamsql/functions"
)

// ---------- helpers ----------

func c20RegisterMul(name string, mult float64) error {
	functions.Unregister(name)
	return functions.RegisterCustomFunction(name, functions.TypeMath, "math", "multiply", 1, 1,
		func(ctx *functions.FunctionContext, args []any) (any, error) {
			switch x := args[0].(type) {
			case float64:
				return x * mult, nil
			case int:
				return float64(x) * mult, nil
			}
			return nil, fmt.Errorf("not a number: %v", args[0])
		})
}

// c20RunInstance runs one instance over rows and returns its output rows as JSON lines.
// Non-aggregation queries use EmitSync (fully deterministic); window queries use Emit + a sync sink.
func c20RunInstance(sql string, rows []map[string]any) (string, error) {
	s := New()
	if err := s.Execute(sql); err != nil {
		return "", err
	}
	defer s.Stop()
	var lines []string
	if !s.IsAggregationQuery() {
		for _, r := range rows {
			out, err := s.EmitSync(r)
			if err != nil {
				return "", err
			}
			b, _ := json.Marshal(out)
			lines = append(lines, string(b))
		}
		return strings.Join(lines, "\n"), nil
	}
	var mu sync.Mutex
	s.AddSyncSink(func(res []map[string]any) {
		mu.Lock()
		defer mu.Unlock()
		for _, m := range res {
			c := map[string]any{}
			for k, v := range m {
				if k == "window_id" || k == "window_start" || k == "window_end" {
					continue // wall-clock dependent
				}
				c[k] = v
			}
			b, _ := json.Marshal(c)
			lines = append(lines, string(b))
		}
	})
	for _, r := range rows {
		s.Emit(r)
		time.Sleep(5 * time.Millisecond)
	}
	time.Sleep(150 * time.Millisecond)
	mu.Lock()
	defer mu.Unlock()
	return strings.Join(lines, "\n"), nil
}

// TestC20ChildAlone is the body of the fresh process: it runs exactly one instance.
func TestC20ChildAlone(t *testing.T) {
	sql := os.Getenv("C20_CHILD_SQL")
	if sql == "" {
		t.Skip("helper process only")
	}
	if m := os.Getenv("C20_CHILD_MULT"); m != "" {
		var mult float64
		fmt.Sscan(m, &mult)
		if err := c20RegisterMul("c20_scale", mult); err != nil {
			t.Fatal(err)
		}
	}
	var rows []map[string]any
	if err := json.Unmarshal([]byte(os.Getenv("C20_CHILD_ROWS")), &rows); err != nil {
		t.Fatal(err)
	}
	out, err := c20RunInstance(sql, rows)
	if err != nil {
		t.Fatal(err)
	}
	b, _ := json.Marshal(out)
	fmt.Printf("C20ALONE%s\n", b)
}

func c20Alone(t *testing.T, sql string, rows []map[string]any, mult string) string {
	t.Helper()
	rj, _ := json.Marshal(rows)
	cmd := exec.Command(os.Args[0], "-test.run=^TestC20ChildAlone$", "-test.count=1")
	cmd.Env = append(os.Environ(), "C20_CHILD_SQL="+sql, "C20_CHILD_ROWS="+string(rj), "C20_CHILD_MULT="+mult)
	out, _ := cmd.CombinedOutput()
	for _, line := range strings.Split(string(out), "\n") {
		if strings.HasPrefix(line, "C20ALONE") {
			var s string
			if err := json.Unmarshal([]byte(strings.TrimPrefix(line, "C20ALONE")), &s); err != nil {
				t.Fatal(err)
			}
			return s
		}
	}
	t.Fatalf("helper process produced no result:\n%s", out)
	return ""
}

// jsonRows round-trips rows through JSON so that the in-process run and the helper
// process see byte-for-byte the same input values (all numbers float64).
func c20JSONRows(t *testing.T, rows []map[string]any) []map[string]any {
	t.Helper()
	b, _ := json.Marshal(rows)
	var out []map[string]any
	if err := json.Unmarshal(b, &out); err != nil {
		t.Fatal(err)
	}
	return out
}

// ---------- F1: compiled-expression cache keeps a replaced custom function ----------

// Instance A runs while c20_scale multiplies by 2. The function is then replaced
// (Unregister + RegisterCustomFunction, the documented run-time management API) by one
// that multiplies by 10, and instance B is started. B's WHERE (compiled per instance)
// calls the new function, but B's SELECT calls the old one, because the process-wide
// program cache (functions/expr_bridge.go:181,224) is keyed by the expression text and
// the compiled program embeds the function objects that were registered when instance A
// first evaluated "c20_scale(x)".
func TestC20_F1_ReplacedCustomFunctionStaysInSharedProgramCache(t *testing.T) {
	if os.Getenv("C20_CHILD_SQL") != "" {
		t.Skip()
	}
	const sql = "SELECT c20_scale(x) AS r FROM stream WHERE c20_scale(x) > 25"
	rows := c20JSONRows(t, []map[string]any{{"x": 5.0}})

	alone := c20Alone(t, sql, rows, "10") // B alone, c20_scale = x*10
	if alone != `{"r":50}` {
		t.Fatalf("unexpected reference result of B alone: %s", alone)
	}

	// instance A: same projection while c20_scale = x*2
	if err := c20RegisterMul("c20_scale", 2); err != nil {
		t.Fatal(err)
	}
	defer functions.Unregister("c20_scale")
	if _, err := c20RunInstance("SELECT c20_scale(x) AS r FROM stream", rows); err != nil {
		t.Fatal(err)
	}
	// the function is replaced, then instance B starts
	if err := c20RegisterMul("c20_scale", 10); err != nil {
		t.Fatal(err)
	}
	got, err := c20RunInstance(sql, rows)
	if err != nil {
		t.Fatal(err)
	}
	if got != alone {
		t.Errorf("instance B after instance A: %s, instance B alone: %s\n(B's WHERE saw 5*10=50 > 25, B's SELECT returned 5*2)", got, alone)
	}
}

// ---------- F2: program specialised to the first row of another instance ----------

// Both instances run the same SQL. A's rows carry code as a Go int, B's rows carry it as
// float64 (what a JSON decoder produces). The bridge compiles "concat(tag, '-', code == 1)"
// once per process with expr.Env(<first row>), so expr-lang types `code` from A's first row
// and emits the int-only opcode OpEqualInt. For B's float64 that opcode panics, the bridge
// falls back to expr.Eval, where `concat` is expr-lang's own array builtin instead of
// StreamSQL's concat, which fails -> B gets NULL instead of "b-true".
func TestC20_F2_OtherInstancesFirstRowTypesChangeResult(t *testing.T) {
	if os.Getenv("C20_CHILD_SQL") != "" {
		t.Skip()
	}
	const sql = "SELECT concat(c20tag, '-', c20code == 1) AS r FROM stream"
	rowsB := c20JSONRows(t, []map[string]any{{"c20tag": "b", "c20code": 1.0}, {"c20tag": "c", "c20code": 2.5}})

	alone := c20Alone(t, sql, rowsB, "")
	if alone != "{\"r\":\"b-true\"}\n{\"r\":\"c-false\"}" {
		t.Fatalf("unexpected reference result of B alone: %q", alone)
	}

	a := New()
	if err := a.Execute(sql); err != nil {
		t.Fatal(err)
	}
	defer a.Stop()
	b := New()
	if err := b.Execute(sql); err != nil {
		t.Fatal(err)
	}
	defer b.Stop()

	// interleaving: A's first row, then B's rows
	ra, err := a.EmitSync(map[string]any{"c20tag": "a", "c20code": 1}) // Go int
	if err != nil || ra["r"] != "a-true" {
		t.Fatalf("instance A: %v %v", ra, err)
	}
	var lines []string
	for _, r := range rowsB {
		out, err := b.EmitSync(r)
		if err != nil {
			t.Fatal(err)
		}
		j, _ := json.Marshal(out)
		lines = append(lines, string(j))
	}
	got := strings.Join(lines, "\n")
	if got != alone {
		t.Errorf("instance B interleaved with instance A:\n%s\ninstance B alone:\n%s", got, alone)
	}
}

// Same root cause with JSON-only data: A's first row has a string status, B's first row
// has a NULL status. Alone, B's program is compiled untyped and yields "b-false".
func TestC20_F2b_NullInOtherInstance(t *testing.T) {
	if os.Getenv("C20_CHILD_SQL") != "" {
		t.Skip()
	}
	const sql = "SELECT concat(c20dev, '-', c20status == 'ok') AS r FROM stream"
	rowsB := c20JSONRows(t, []map[string]any{{"c20dev": "b", "c20status": nil}, {"c20dev": "c", "c20status": "ok"}})
	alone := c20Alone(t, sql, rowsB, "")
	if alone != "{\"r\":\"b-false\"}\n{\"r\":\"c-true\"}" {
		t.Fatalf("unexpected reference result of B alone: %q", alone)
	}
	if _, err := c20RunInstance(sql, c20JSONRows(t, []map[string]any{{"c20dev": "a", "c20status": "ok"}})); err != nil {
		t.Fatal(err)
	}
	got, err := c20RunInstance(sql, rowsB)
	if err != nil {
		t.Fatal(err)
	}
	if got != alone {
		t.Errorf("instance B after instance A:\n%s\ninstance B alone:\n%s", got, alone)
	}
}

// ---------- F3: nth_value's registry singleton is mutated by a running query ----------

// Instance A filters groups with HAVING nth_value(v, 3) > 2. HAVING is evaluated by
// expr-lang, which calls NthValueFunction.Execute on the object stored in the process-wide
// registry; Execute calls Validate, and Validate stores n into that shared object
// (functions/functions_window.go:258). New() copies n from the shared object (line 295),
// and the GLOBAL WINDOW path creates its aggregators with New() only
// (window/global_window.go:183,231). So after A has run, B's nth_value(v, 1) returns the
// third value of every window.
func TestC20_F3_NthValuePrototypeMutatedByOtherInstance(t *testing.T) {
	if os.Getenv("C20_CHILD_SQL") != "" {
		t.Skip()
	}
	const sqlA = "SELECT device, nth_value(v, 3) AS n FROM stream GROUP BY device, CountingWindow(4) HAVING nth_value(v, 3) > 2"
	const sqlB = "SELECT nth_value(v, 1) AS n, count(*) AS c FROM stream GROUP BY GLOBAL WINDOW TRIGGER WHEN count(*) >= 4"
	var rows []map[string]any
	for i, v := range []int{1, 4, 3, 9, 5, 2, 7, 6} {
		dev := "a"
		if i%2 == 1 {
			dev = "b"
		}
		rows = append(rows, map[string]any{"device": dev, "v": v})
	}
	rows = c20JSONRows(t, rows)

	alone := c20Alone(t, sqlB, rows, "")
	if !strings.Contains(alone, ":1") || !strings.Contains(alone, ":5") || len(strings.Split(alone, "\n")) != 2 {
		t.Fatalf("unexpected reference result of B alone (first values 1 and 5 expected): %q", alone)
	}
	if _, err := c20RunInstance(sqlA, rows); err != nil {
		t.Fatal(err)
	}
	got, err := c20RunInstance(sqlB, rows)
	if err != nil {
		t.Fatal(err)
	}
	if got != alone {
		t.Errorf("instance B after instance A:\n%s\ninstance B alone:\n%s", got, alone)
	}
}
