package streamsql_test

// Property C13 audit: LIKE and IS [NOT] NULL must have SQL semantics on every
// evaluation path (WHERE, HAVING, CASE conditions, SELECT expressions).
// Every test below FAILS on the unmodified checkout; one test per root cause.
//
// Place this file in the repository root (package streamsql_test) and run:
//   go test -run 'TestC13_' -count=1 .

import (
	"fmt"
	"sort"
	"strings"
	"sync"
	"testing"
	"time"

	"github.com/rulego/streamsql"
)

// c13Sync runs a non-aggregation query against one row through EmitSync.
// It returns the projected row (nil when the row was filtered out).
func c13Sync(t *testing.T, sql string, row map[string]any) map[string]any {
	t.Helper()
	s := streamsql.New()
	defer s.Stop()
	if err := s.Execute(sql); err != nil {
		t.Fatalf("Execute(%q): %v", sql, err)
	}
	cp := map[string]any{}
	for k, v := range row {
		cp[k] = v
	}
	r, err := s.EmitSync(cp)
	if err != nil {
		t.Fatalf("EmitSync(%q, %v): %v", sql, row, err)
	}
	return r
}

// c13Win runs a windowed query, feeding all rows, and returns everything the sink saw.
func c13Win(t *testing.T, sql string, rows []map[string]any) []map[string]any {
	t.Helper()
	s := streamsql.New()
	if err := s.Execute(sql); err != nil {
		t.Fatalf("Execute(%q): %v", sql, err)
	}
	defer s.Stop()
	var mu sync.Mutex
	var out []map[string]any
	s.AddSink(func(r []map[string]any) {
		mu.Lock()
		out = append(out, r...)
		mu.Unlock()
	})
	for _, in := range rows {
		cp := map[string]any{}
		for k, v := range in {
			cp[k] = v
		}
		s.Emit(cp)
	}
	time.Sleep(700 * time.Millisecond)
	s.Stop()
	mu.Lock()
	defer mu.Unlock()
	return out
}

func c13Keys(rows []map[string]any, col string) string {
	var ks []string
	for _, r := range rows {
		ks = append(ks, fmt.Sprint(r[col]))
	}
	sort.Strings(ks)
	return strings.Join(ks, "|")
}

// F1: a bare `x LIKE 'p'` / `x IS [NOT] NULL` SELECT item is not recognised as an
// expression (no operator character, no "AND"/"OR" substring) and is looked up as
// a column literally named "x LIKE 'a%'" -> the output is NULL for every row.
// Whether it is evaluated even depends on the letters of the pattern ('or%' works).
func TestC13_F1_SelectItemLikeIsNullNotEvaluated(t *testing.T) {
	row := map[string]any{"id": 1, "x": "ab"}
	cases := []struct {
		sql  string
		want any
	}{
		{"SELECT x LIKE 'a%' AS m FROM stream", true},
		{"SELECT x LIKE 'b%' AS m FROM stream", false},
		{"SELECT x LIKE 'a_' AS m FROM stream", true},
		{"SELECT x IS NULL AS m FROM stream", false},
		{"SELECT x IS NOT NULL AS m FROM stream", true},
		{"SELECT y IS NULL AS m FROM stream", true},
		// control, already works on the unmodified checkout only because the pattern contains "or":
		{"SELECT x LIKE 'or%' AS m FROM stream", false},
	}
	for _, c := range cases {
		r := c13Sync(t, c.sql, row)
		if r == nil || r["m"] != c.want {
			t.Errorf("%s row=%v: got m=%#v, want %#v", c.sql, row, r["m"], c.want)
		}
	}
}

// F2: patterns that are lowered to like_match(...) (any pattern with '_' or an inner
// '%') raise an error when the column is NULL/missing; condition.Evaluate turns
// the error into "false" for the WHOLE predicate, so `... OR x IS NULL` and
// `... OR id = 1` lose rows. Patterns lowered to startsWith/endsWith/contains do
// not have the problem, so the answer depends on the pattern shape.
func TestC13_F2_LikeMatchOnNullKillsWholePredicate(t *testing.T) {
	for _, row := range []map[string]any{{"id": 1, "x": nil}, {"id": 1}} {
		for _, sql := range []string{
			"SELECT id FROM stream WHERE x LIKE 'a_' OR x IS NULL",
			"SELECT id FROM stream WHERE x LIKE 'a%b' OR x IS NULL",
			"SELECT id FROM stream WHERE x LIKE 'a_' OR id = 1",
			// control (passes today): same predicate with a prefix pattern / other operand order
			"SELECT id FROM stream WHERE x LIKE 'a%' OR x IS NULL",
			"SELECT id FROM stream WHERE x IS NULL OR x LIKE 'a_'",
		} {
			if r := c13Sync(t, sql, row); r == nil {
				t.Errorf("%s row=%v: row was filtered out, want it to pass (x IS NULL / id = 1 is true)", sql, row)
			}
		}
	}
	// Same root cause through HAVING.
	in := []map[string]any{{"x": "ab"}, {"x": "cd"}, {"x": nil}}
	out := c13Win(t, "SELECT x, count(*) AS c FROM stream GROUP BY x, CountingWindow(1) HAVING x LIKE 'a_' OR x IS NULL", in)
	if got, want := c13Keys(out, "x"), "<nil>|ab"; got != want {
		t.Errorf("HAVING x LIKE 'a_' OR x IS NULL: got groups %q, want %q", got, want)
	}
}

// F3: `x LIKE '%'` and `x LIKE '%%'` are constant-folded to the literal `true`
// before the column is looked at, so a NULL or missing x "matches" in WHERE,
// HAVING and SELECT, while the CASE path answers false for the same row.
func TestC13_F3_PercentOnlyPatternTrueForNull(t *testing.T) {
	for _, row := range []map[string]any{{"id": 1, "x": nil}, {"id": 1}} {
		for _, p := range []string{"%", "%%"} {
			if r := c13Sync(t, "SELECT id FROM stream WHERE x LIKE '"+p+"'", row); r != nil {
				t.Errorf("WHERE x LIKE '%s' row=%v: row passed, but x has no text (NULL LIKE p is not true)", p, row)
			}
			if r := c13Sync(t, "SELECT (x LIKE '"+p+"') AS m FROM stream", row); r["m"] == true {
				t.Errorf("SELECT (x LIKE '%s') row=%v: got true, want not-true", p, row)
			}
		}
	}
	// Path disagreement on one and the same row (x present but NULL):
	row := map[string]any{"id": 1, "x": nil}
	where := c13Sync(t, "SELECT id FROM stream WHERE x LIKE '%'", row) != nil
	cs := c13Sync(t, "SELECT CASE WHEN x LIKE '%' THEN 'Y' ELSE 'N' END AS m FROM stream", row)["m"] == "Y"
	if where != cs {
		t.Errorf("x=NULL, x LIKE '%%': WHERE says %v, CASE says %v", where, cs)
	}
}

// F4: in the custom expression engine (CASE conditions, AND/OR SELECT expressions)
// LIKE on a MISSING column is an evaluation error instead of "not true": the whole
// CASE yields NULL instead of taking ELSE (or a later true branch). A column that is
// present-but-NULL takes ELSE, and WHERE treats both the same.
func TestC13_F4_CaseLikeOnMissingColumnErrors(t *testing.T) {
	row := map[string]any{"id": 1} // x is missing
	cases := []struct{ sql, want string }{
		{"SELECT CASE WHEN x LIKE 'a%' THEN 'Y' ELSE 'N' END AS m FROM stream", "N"},
		{"SELECT CASE WHEN x LIKE 'a%' OR x IS NULL THEN 'Y' ELSE 'N' END AS m FROM stream", "Y"},
		{"SELECT CASE WHEN x LIKE 'a%' THEN 'A' WHEN x IS NULL THEN 'NULL' ELSE 'N' END AS m FROM stream", "NULL"},
	}
	for _, c := range cases {
		r := c13Sync(t, c.sql, row)
		if fmt.Sprint(r["m"]) != c.want {
			t.Errorf("%s row=%v: got m=%#v, want %q", c.sql, row, r["m"], c.want)
		}
	}
	// SELECT boolean expression evaluated by the same engine.
	r := c13Sync(t, "SELECT x LIKE 'a%' AND id = 1 AS m FROM stream", row)
	if r["m"] != false {
		t.Errorf("SELECT x LIKE 'a%%' AND id = 1, x missing: got m=%#v, want false", r["m"])
	}
}

// F5: the custom engine first tries to compare the operands as numbers. Letter-only
// texts/patterns that strconv.ParseFloat accepts ("inf", "nan", "infinity", any case)
// therefore never reach the LIKE matcher: the comparison fails with
// "cannot compare incompatible types" / "unsupported numeric comparison operator: LIKE"
// and the CASE yields NULL. WHERE and SELECT (expr-lang path) answer correctly.
func TestC13_F5_CaseLikeOnFloatLookingText(t *testing.T) {
	cases := []struct {
		text, pat string
		want      string
	}{
		{"inf", "i%", "Y"},
		{"inf", "%", "Y"},
		{"inf", "a%", "N"},
		{"nan", "_a_", "Y"},
		{"nan", "nan", "Y"},      // both sides "numeric"
		{"infinity", "inf%", "Y"}, // text numeric, pattern not
		{"abc", "inf", "N"},       // pattern numeric, text not
	}
	for _, c := range cases {
		row := map[string]any{"id": 1, "x": c.text}
		sql := "SELECT CASE WHEN x LIKE '" + c.pat + "' THEN 'Y' ELSE 'N' END AS m FROM stream"
		r := c13Sync(t, sql, row)
		if fmt.Sprint(r["m"]) != c.want {
			t.Errorf("%s x=%q: got m=%#v, want %q", sql, c.text, r["m"], c.want)
		}
		// the WHERE path gets the same input right
		w := c13Sync(t, "SELECT id FROM stream WHERE x LIKE '"+c.pat+"'", row) != nil
		if w != (c.want == "Y") {
			t.Errorf("WHERE control x=%q LIKE %q: got %v", c.text, c.pat, w)
		}
	}
	// Aggregation path: sum(CASE WHEN x LIKE ...) silently drops such rows.
	in := []map[string]any{{"g": "k", "x": "inf"}, {"g": "k", "x": "nan"}, {"g": "k", "x": "ab"}}
	out := c13Win(t, "SELECT g, sum(CASE WHEN x LIKE '%' THEN 1 ELSE 0 END) AS s FROM stream GROUP BY g, CountingWindow(3)", in)
	if len(out) != 1 || fmt.Sprint(out[0]["s"]) != "3" {
		t.Errorf("sum(CASE WHEN x LIKE '%%' ...) over inf,nan,ab: got %v, want s=3", out)
	}
}

// F6: `a.b IS NULL` is rewritten to the expr-lang text `a.b == nil`. When the parent
// `a` is missing or NULL, expr-lang fails on the member access, the error is mapped
// to false, and BOTH `a.b IS NULL` and `a.b IS NOT NULL` reject the row (so IS NOT
// NULL is not the negation of IS NULL). CASE (custom engine) answers correctly.
func TestC13_F6_NestedColumnIsNullWithMissingParent(t *testing.T) {
	for _, row := range []map[string]any{{"id": 1}, {"id": 1, "a": nil}} {
		isNull := c13Sync(t, "SELECT id FROM stream WHERE a.b IS NULL", row) != nil
		isNotNull := c13Sync(t, "SELECT id FROM stream WHERE a.b IS NOT NULL", row) != nil
		if !isNull {
			t.Errorf("WHERE a.b IS NULL row=%v: row rejected, want pass (a.b is absent)", row)
		}
		if isNull == isNotNull {
			t.Errorf("row=%v: a.b IS NULL=%v and a.b IS NOT NULL=%v are not negations", row, isNull, isNotNull)
		}
		r := c13Sync(t, "SELECT (a.b IS NULL) AS m FROM stream", row)
		if r["m"] != true {
			t.Errorf("SELECT (a.b IS NULL) row=%v: got %#v, want true", row, r["m"])
		}
		// control: the CASE path gets it right
		r = c13Sync(t, "SELECT CASE WHEN a.b IS NULL THEN 'Y' ELSE 'N' END AS m FROM stream", row)
		if r["m"] != "Y" {
			t.Errorf("CASE control row=%v: got %#v", row, r["m"])
		}
	}
}

// F7: keyword case. The SQL lexer is case-insensitive and WHERE/HAVING normalise the
// keywords, but SELECT expressions keep the user's spelling and the LIKE / IS NULL
// rewrite regexes only match upper case (while ContainsLikeOperator/ContainsIsNullOperator
// upper-case first). `(x like 'a%')` is NULL where `(x LIKE 'a%')` is true.
func TestC13_F7_LowercaseKeywordsInSelectExpression(t *testing.T) {
	row := map[string]any{"id": 1, "x": "ab"}
	cases := []struct {
		sql  string
		want any
	}{
		{"SELECT (x LIKE 'a%') AS m FROM stream", true}, // control, passes
		{"SELECT (x like 'a%') AS m FROM stream", true},
		{"SELECT (x like 'a_') AS m FROM stream", true},
		{"SELECT (x IS NULL) AS m FROM stream", false}, // control, passes
		{"SELECT (x is null) AS m FROM stream", false},
		{"SELECT (x is not null) AS m FROM stream", true},
	}
	for _, c := range cases {
		r := c13Sync(t, c.sql, row)
		if r["m"] != c.want {
			t.Errorf("%s: got m=%#v, want %#v", c.sql, r["m"], c.want)
		}
	}
}

// F8: all three copies of the matcher walk bytes, so '_' consumes one BYTE, not one
// character: a single non-ASCII letter does not match '_' but matches '__'.
func TestC13_F8_UnderscoreMatchesByteNotCharacter(t *testing.T) {
	row := map[string]any{"id": 1, "x": "é"} // one letter, two bytes
	if c13Sync(t, "SELECT id FROM stream WHERE x LIKE '_'", row) == nil {
		t.Errorf("WHERE 'é' LIKE '_': rejected, want match (exactly one character)")
	}
	if c13Sync(t, "SELECT id FROM stream WHERE x LIKE '__'", row) != nil {
		t.Errorf("WHERE 'é' LIKE '__': matched, want no match (text has one character)")
	}
	r := c13Sync(t, "SELECT CASE WHEN x LIKE '_' THEN 'Y' ELSE 'N' END AS m FROM stream", row)
	if r["m"] != "Y" {
		t.Errorf("CASE 'é' LIKE '_': got %#v, want Y", r["m"])
	}
	row = map[string]any{"id": 1, "x": "aé"}
	if c13Sync(t, "SELECT id FROM stream WHERE x LIKE 'a_'", row) == nil {
		t.Errorf("WHERE 'aé' LIKE 'a_': rejected, want match")
	}
}

// F9: the HAVING condition path does not strip backtick-quoted identifiers (WHERE
// does). "`x` IS NOT NULL" is handed to expr-lang verbatim, fails to compile, and
// applyHavingWithCondition then returns ALL groups unfiltered (fail-open).
func TestC13_F9_HavingBacktickIsNullFailsOpen(t *testing.T) {
	in := []map[string]any{{"x": "ab"}, {"x": "cd"}, {"x": nil}}
	// control: WHERE with the same spelling works
	if c13Sync(t, "SELECT id FROM stream WHERE `x` IS NOT NULL", map[string]any{"id": 1, "x": nil}) != nil {
		t.Errorf("WHERE `x` IS NOT NULL control failed")
	}
	out := c13Win(t, "SELECT x, count(*) AS c FROM stream GROUP BY x, CountingWindow(1) HAVING `x` IS NOT NULL", in)
	if got, want := c13Keys(out, "x"), "ab|cd"; got != want {
		t.Errorf("HAVING `x` IS NOT NULL: got groups %q, want %q", got, want)
	}
	out = c13Win(t, "SELECT x, count(*) AS c FROM stream GROUP BY x, CountingWindow(1) HAVING `x` IS NULL", in)
	if got, want := c13Keys(out, "x"), "<nil>"; got != want {
		t.Errorf("HAVING `x` IS NULL: got groups %q, want %q", got, want)
	}
}

// F10: rewriteGroupColumnRefs rewrites qualified column references in the HAVING
// TEXT with a regex that also fires inside string literals. With GROUP BY a.b
// (output name k), the pattern literal 'a.b' becomes 'k', so the group whose text
// is "a.b" is dropped and the group whose text is "k" is returned.
func TestC13_F10_HavingPatternLiteralRewritten(t *testing.T) {
	in := []map[string]any{
		{"a": map[string]any{"b": "a.b"}},
		{"a": map[string]any{"b": "k"}},
		{"a": map[string]any{"b": "axb"}},
	}
	out := c13Win(t, "SELECT a.b AS k, count(*) AS c FROM stream GROUP BY a.b, CountingWindow(1) HAVING k LIKE 'a.b'", in)
	if got, want := c13Keys(out, "k"), "a.b"; got != want {
		t.Errorf("HAVING k LIKE 'a.b': got groups %q, want %q", got, want)
	}
	out = c13Win(t, "SELECT a.b AS k, count(*) AS c FROM stream GROUP BY a.b, CountingWindow(1) HAVING k LIKE '%a.b%'", in)
	if got, want := c13Keys(out, "k"), "a.b"; got != want {
		t.Errorf("HAVING k LIKE '%%a.b%%': got groups %q, want %q", got, want)
	}
}
