package window

// Audit of property C02 (watermark discipline), in-package part. Every test in this
// file FAILS on the unmodified checkout. Place at <repo root>/window/c02_findings_window_test.go.

import (
	"fmt"
	"sync"
	"testing"
	"time"

	"github.com/rulego/streamsql/types"
)

type c02Collector struct {
	mu   sync.Mutex
	base time.Time
	out  []string
}

func (c *c02Collector) add(rows []types.Row) {
	c.mu.Lock()
	defer c.mu.Unlock()
	s := fmt.Sprintf("[%d,%d):", rows[0].Slot.Start.Sub(c.base).Milliseconds(), rows[0].Slot.End.Sub(c.base).Milliseconds())
	for _, r := range rows {
		s += fmt.Sprintf(" %v", r.Data.(map[string]any)["k"])
	}
	c.out = append(c.out, s)
}

func (c *c02Collector) has(want string) bool {
	c.mu.Lock()
	defer c.mu.Unlock()
	for _, o := range c.out {
		if o == want {
			return true
		}
	}
	return false
}

func (c *c02Collector) all() []string {
	c.mu.Lock()
	defer c.mu.Unlock()
	return append([]string(nil), c.out...)
}

func c02Cfg(ooo, al, idle time.Duration) types.WindowConfig {
	return types.WindowConfig{Type: TypeTumbling, Params: []any{2 * time.Second}, TsProp: "ts",
		TimeCharacteristic: types.EventTime, MaxOutOfOrderness: ooo, AllowedLateness: al,
		IdleTimeout: idle, WatermarkInterval: 10 * time.Millisecond}
}

func c02Row(base time.Time, ms int64, k string) map[string]any {
	return map[string]any{"ts": base.Add(time.Duration(ms) * time.Millisecond), "k": k}
}

// F8: lateness decisions in Add() are taken against state maintained by the trigger
// goroutine (currentSlot / triggeredWindows), not against the watermark. When the
// trigger goroutine lags (here: a slow consumer blocks it in the callback, exactly the
// "burst faster than the trigger goroutine" case), events far older than
// watermark-ALLOWEDLATENESS still change results.
func TestC02_F8_StaleTriggerStateAcceptsTooLateEvents(t *testing.T) {
	base := time.Now().Add(-time.Hour).Truncate(time.Minute)
	for _, al := range []time.Duration{0, time.Second} {
		tw, err := NewTumblingWindow(c02Cfg(0, al, 0))
		if err != nil {
			t.Fatal(err)
		}
		c := &c02Collector{base: base}
		gate := make(chan struct{})
		var fm sync.Mutex
		first := true
		tw.SetCallback(func(r []types.Row) {
			c.add(r)
			fm.Lock()
			f := first
			first = false
			fm.Unlock()
			if f {
				<-gate // first delivery stalls the trigger goroutine (slow consumer)
			}
		})
		tw.Start()
		tw.Add(c02Row(base, 100, "a"))
		tw.Add(c02Row(base, 2100, "b")) // watermark 2100 -> [0,2000) fires, trigger goroutine now stalled
		time.Sleep(100 * time.Millisecond)
		tw.Add(c02Row(base, 100000, "c"))         // watermark = 100000
		tw.Add(c02Row(base, 2500, "tooLateCur"))  // 97.5s behind the watermark
		tw.Add(c02Row(base, 500, "tooLateFired")) // 99.5s behind the watermark, window [0,2000) closed at watermark 2000+al
		close(gate)
		time.Sleep(200 * time.Millisecond)
		tw.Add(c02Row(base, 200000, "d"))
		time.Sleep(200 * time.Millisecond)
		tw.Stop()
		t.Logf("allowedLateness=%v -> %v", al, c.all())
		if !c.has("[2000,4000): b") {
			t.Errorf("allowedLateness=%v: window [2000,4000) must contain only b (event 2500 arrived when watermark-allowedLateness was >= 99000), got %v", al, c.all())
		}
		if c.has("[0,2000): a tooLateFired") {
			t.Errorf("allowedLateness=%v: window [0,2000) re-delivered for an event 99.5s older than the watermark: %v", al, c.all())
		}
	}
}

// F10: alignWindowStart truncates toward zero, so for a pre-1970 timestamp the
// "aligned" window starts AFTER the event and never contains it: an on-time row is lost.
func TestC02_F10_NegativeEpochTimestampLost(t *testing.T) {
	epoch := time.Unix(0, 0).UTC()
	tw, _ := NewTumblingWindow(c02Cfg(0, 0, 0))
	c := &c02Collector{base: epoch}
	tw.SetCallback(c.add)
	tw.Start()
	for _, ms := range []int64{-500, 100, 2100, 4100} {
		tw.Add(c02Row(epoch, ms, fmt.Sprint(ms)))
		time.Sleep(50 * time.Millisecond)
	}
	time.Sleep(100 * time.Millisecond)
	tw.Stop()
	t.Logf("%v", c.all())
	if !c.has("[-2000,0): -500") {
		t.Errorf("first (on-time) event at -500ms must be delivered in window [-2000,0), got %v", c.all())
	}
}

// F11: far-future garbage rows are ignored for maxEventTime but still refresh
// lastEventTime (UpdateEventTime sets it before the guard), so they keep the source
// "non-idle": the idle-timeout watermark advance never happens and the open window
// is never delivered. A >24h-in-the-future timestamp must not change the watermark/results.
func TestC02_F11_FarFutureRowsSuppressIdleTimeout(t *testing.T) {
	base := time.Now().Add(-time.Hour).Truncate(time.Minute)
	run := func(garbage bool) (bool, []string) {
		tw, _ := NewTumblingWindow(c02Cfg(0, 0, 300*time.Millisecond))
		c := &c02Collector{base: base}
		tw.SetCallback(c.add)
		tw.Start()
		tw.Add(c02Row(base, 100, "a"))
		tw.Add(c02Row(base, 500, "b"))
		wm0 := tw.watermark.GetCurrentWatermark()
		for i := 0; i < 10; i++ {
			if garbage {
				tw.Add(map[string]any{"ts": time.Now().Add(100 * 24 * time.Hour), "k": "junk"})
			}
			time.Sleep(100 * time.Millisecond)
		}
		wm1 := tw.watermark.GetCurrentWatermark()
		tw.Stop()
		return wm1.After(wm0), c.all()
	}
	advClean, outClean := run(false)
	advDirty, outDirty := run(true)
	t.Logf("clean: advanced=%v %v; with garbage: advanced=%v %v", advClean, outClean, advDirty, outDirty)
	if !advClean || len(outClean) != 1 {
		t.Fatalf("precondition: idle timeout should fire [0,2000) without garbage, got %v", outClean)
	}
	if advDirty != advClean || fmt.Sprint(outDirty) != fmt.Sprint(outClean) {
		t.Errorf("far-future rows changed watermark/results: clean=%v/%v dirty=%v/%v", advClean, outClean, advDirty, outDirty)
	}
}
