package streamsql

// Audit of property C02 (watermark discipline). Every test in this file FAILS on
// the unmodified checkout. Place at <repo root>/c02_findings_test.go.

import (
	"fmt"
	"sort"
	"strings"
	"sync"
	"testing"
	"time"
)

type c02ev struct {
	ms  int64  // event time, ms offset from base (or absolute unix ms if abs)
	dev string // deviceId, default "A"
	abs bool
}

const c02Select = "SELECT deviceId, COUNT(*) AS cnt, window_start() AS ws, window_end() AS we FROM stream GROUP BY deviceId, "

// c02Run feeds the events one at a time (pause between them so the trigger
// goroutine always keeps up: none of these findings depends on a race) and
// returns every delivered result row rendered as "dev[start,end)=cnt" in
// delivery batches.
func c02Run(t *testing.T, window, with string, evs []c02ev) []string {
	t.Helper()
	s := New()
	defer s.Stop()
	sql := c02Select + window + " WITH (TIMESTAMP='eventTime', TIMEUNIT='ms'" + with + ")"
	if err := s.Execute(sql); err != nil {
		t.Fatalf("execute: %v", err)
	}
	base := (time.Now().Add(-time.Hour).UnixMilli() / 60000) * 60000
	var mu sync.Mutex
	var out []string
	s.AddSink(func(res []map[string]any) {
		mu.Lock()
		defer mu.Unlock()
		for _, r := range res {
			ws, _ := r["ws"].(int64)
			we, _ := r["we"].(int64)
			out = append(out, fmt.Sprintf("%v[%d,%d)=%v", r["deviceId"], ws/1e6-base, we/1e6-base, r["cnt"]))
		}
	})
	for _, e := range evs {
		ts := base + e.ms
		if e.abs {
			ts = e.ms
		}
		d := e.dev
		if d == "" {
			d = "A"
		}
		s.Emit(map[string]any{"deviceId": d, "eventTime": ts})
		time.Sleep(150 * time.Millisecond)
	}
	time.Sleep(700 * time.Millisecond)
	mu.Lock()
	defer mu.Unlock()
	res := append([]string(nil), out...)
	t.Logf("%s %s -> %v", window, with, res)
	return res
}

func c02Has(out []string, want string) bool {
	for _, o := range out {
		if o == want {
			return true
		}
	}
	return false
}

func c02Count(out []string, prefix string) int {
	n := 0
	for _, o := range out {
		if strings.HasPrefix(o, prefix) {
			n++
		}
	}
	return n
}

func c02FarFuture() int64 { return time.Now().Add(48 * time.Hour).UnixMilli() }

// F1: one garbage far-future row arriving FIRST wedges a tumbling/sliding window
// for good: no on-time result is ever delivered afterwards.
func TestC02_F1_FarFutureFirstRowWedgesWindow(t *testing.T) {
	for _, w := range []string{"TumblingWindow('2s')", "SlidingWindow('2s','2s')"} {
		out := c02Run(t, w, "", []c02ev{
			{ms: c02FarFuture(), abs: true}, // > 24h in the future: must not change any result
			{ms: 100}, {ms: 500}, {ms: 2100}, {ms: 4100},
		})
		if !c02Has(out, "A[0,2000)=2") || !c02Has(out, "A[2000,4000)=1") {
			t.Errorf("%s: want A[0,2000)=2 and A[2000,4000)=1 (same as without the garbage row), got %v", w, out)
		}
	}
}

// F2: an event that is NOT late (ts >= watermark when it arrives) but belongs to a
// window that precedes the window of the very first event is silently lost.
func TestC02_F2_OnTimeEventBeforeFirstWindowLost(t *testing.T) {
	// MAXOUTOFORDERNESS=5s. first event 10100 -> watermark 5100. 7500 >= 5100: on time.
	evs := []c02ev{{ms: 10100}, {ms: 7500}, {ms: 10500}, {ms: 17100}, {ms: 30000}}
	out := c02Run(t, "TumblingWindow('2s')", ", MAXOUTOFORDERNESS='5s'", evs)
	if !c02Has(out, "A[6000,8000)=1") {
		t.Errorf("tumbling: on-time event 7500 must be delivered in A[6000,8000)=1, got %v", out)
	}
	out = c02Run(t, "SlidingWindow('2s','2s')", ", MAXOUTOFORDERNESS='5s'", evs)
	if !c02Has(out, "A[6000,8000)=1") {
		t.Errorf("sliding: on-time event 7500 must be delivered in A[6000,8000)=1, got %v", out)
	}
}

// F3: a far-future garbage row in the middle of a stream hijacks the key's session:
// the following on-time rows are appended to the year-20xx session and never delivered.
func TestC02_F3_SessionFarFutureRowSwallowsLaterRows(t *testing.T) {
	clean := []c02ev{{ms: 100}, {ms: 500}, {ms: 5000}, {ms: 5500}, {ms: 20000}}
	dirty := []c02ev{{ms: 100}, {ms: c02FarFuture(), abs: true}, {ms: 500}, {ms: 5000}, {ms: 5500}, {ms: 20000}}
	want := c02Run(t, "SessionWindow('2s')", "", clean)
	got := c02Run(t, "SessionWindow('2s')", "", dirty)
	sort.Strings(want)
	sort.Strings(got)
	if fmt.Sprint(want) != fmt.Sprint(got) {
		t.Errorf("far-future row changed the results:\n without: %v\n with:    %v", want, got)
	}
}

// F4: sliding window, late event inside the allowance that falls in an already
// fired window AND in the current (unfired) one: the fired window is not re-delivered.
func TestC02_F4_SlidingLateEventInCurrentSlotNoRedelivery(t *testing.T) {
	out := c02Run(t, "SlidingWindow('4s','2s')", ", ALLOWEDLATENESS='3s'", []c02ev{
		{ms: 100},
		{ms: 4500},  // watermark 4500 -> [0,4000) fires with cnt=1; it stays open until watermark 7000
		{ms: 3000},  // late (3000 < 4500), inside fired [0,4000) which is still inside the allowance
		{ms: 20000}, // flush
	})
	if !c02Has(out, "A[0,4000)=2") {
		t.Errorf("want a re-delivery A[0,4000)=2 (previous contents + late event), got %v", out)
	}
}

// F5: sliding window, late event that falls in TWO fired windows still inside the
// allowance: only one of them (picked by map iteration order) is re-delivered.
func TestC02_F5_SlidingLateEventUpdatesOnlyOneWindow(t *testing.T) {
	out := c02Run(t, "SlidingWindow('4s','2s')", ", ALLOWEDLATENESS='10s'", []c02ev{
		{ms: 100}, {ms: 2100}, {ms: 4100},
		{ms: 8500},  // watermark 8500: [0,4000)=2, [2000,6000)=2, [4000,8000)=1 fired
		{ms: 3000},  // late, falls in fired [0,4000) and [2000,6000); both open until 14000/16000
		{ms: 40000}, // flush
	})
	if !c02Has(out, "A[0,4000)=3") || !c02Has(out, "A[2000,6000)=3") {
		t.Errorf("want re-deliveries A[0,4000)=3 and A[2000,6000)=3, got %v", out)
	}
}

// F6: session window with GROUP BY: a late row of device B is absorbed into the fired
// session of device A (handleLateData ignores the group key). A's window is re-delivered
// and a bogus B row (window_start=0, A's window_id) is produced.
func TestC02_F6_SessionLateRowAbsorbedByOtherGroup(t *testing.T) {
	out := c02Run(t, "SessionWindow('2s')", ", ALLOWEDLATENESS='10s'", []c02ev{
		{ms: 100}, {ms: 500},
		{ms: 5000},           // watermark 5000 -> A[100,2500) fires
		{ms: 600, dev: "B"},  // late; B never had a session, so no fired B window contains it
		{ms: 30000},
	})
	if n := c02Count(out, "A[100,2500)="); n != 1 {
		t.Errorf("A[100,2500) must be delivered exactly once (B's row is not part of it), got %d deliveries: %v", n, out)
	}
	for _, o := range out {
		if strings.HasPrefix(o, "B[") && !strings.HasPrefix(o, "B[600,") {
			t.Errorf("bogus result for B: %s (all: %v)", o, out)
		}
	}
}

// F6b: same root cause, both groups have a fired session containing the late
// timestamp. Each late B row lands in A's or B's snapshot at random, so B's
// re-delivered count is never "previous contents + every late event".
// (passes only with probability 2^-20)
func TestC02_F6b_SessionLateRowsSplitBetweenGroups(t *testing.T) {
	evs := []c02ev{{ms: 100}, {ms: 200, dev: "B"}, {ms: 400, dev: "B"}, {ms: 500}, {ms: 5000}} // fires A[100,2500)=2 and B[200,2400)=2
	for i := 0; i < 20; i++ {
		evs = append(evs, c02ev{ms: 600, dev: "B"})
	}
	evs = append(evs, c02ev{ms: 60000})
	out := c02Run(t, "SessionWindow('2s')", ", ALLOWEDLATENESS='30s'", evs)
	if !c02Has(out, "B[200,2400)=22") {
		t.Errorf("after 20 late B rows the last re-delivery must be B[200,2400)=22, got %v", out)
	}
}

// F7: session window: fired sessions kept for late data are keyed by group key only,
// so the key's next fired session overwrites the previous one although it is still
// inside the allowance; a late event for the first session is dropped.
func TestC02_F7_SessionSecondFiredSessionEvictsFirst(t *testing.T) {
	out := c02Run(t, "SessionWindow('2s')", ", ALLOWEDLATENESS='20s'", []c02ev{
		{ms: 100}, {ms: 500},
		{ms: 5000, dev: "B"}, // watermark 5000 -> A[100,2500)=2 fires, open for late data until 22500
		{ms: 6000},           // A's second session [6000,8000)
		{ms: 9000, dev: "B"}, // watermark 9000 -> A[6000,8000)=1 fires
		{ms: 600},            // late, inside fired A[100,2500); watermark 9000 < 22500
		{ms: 60000, dev: "B"},
	})
	if !c02Has(out, "A[100,2500)=3") {
		t.Errorf("want re-delivery A[100,2500)=3, got %v", out)
	}
}

// F9: session window with MAXOUTOFORDERNESS: after a gap "parks" the key's session,
// an on-time event that belongs to the parked session is put into the NEW session,
// whose bounds do not contain it.
func TestC02_F9_SessionOnTimeEventPutInWrongSession(t *testing.T) {
	out := c02Run(t, "SessionWindow('2s')", ", MAXOUTOFORDERNESS='5s'", []c02ev{
		{ms: 10000},
		{ms: 16000}, // gap > 2s: session [10000,12000) parked, new session [16000,18000); watermark 11000
		{ms: 11500}, // on time (>= 11000), within 2s of 10000: belongs to the first session
		{ms: 60000},
	})
	if !c02Has(out, "A[16000,18000)=1") {
		t.Errorf("session [16000,18000) must contain only the event at 16000, got %v", out)
	}
	if !c02Has(out, "A[10000,13500)=2") {
		t.Errorf("first session must contain events 10000 and 11500 (A[10000,13500)=2), got %v", out)
	}
}

// F12: session window with ALLOWEDLATENESS: an out-of-order event whose session has
// NOT fired yet is dropped, although the same event would be accepted (re-delivery)
// had the session already fired. ALLOWEDLATENESS makes no difference for open sessions.
func TestC02_F12_SessionLateRowForOpenSessionDropped(t *testing.T) {
	out := c02Run(t, "SessionWindow('2s')", ", ALLOWEDLATENESS='10s'", []c02ev{
		{ms: 100},
		{ms: 1500},  // watermark 1500, session [100,3500) still open
		{ms: 1000},  // behind the watermark by 500ms, allowance is 10s, its session has not fired
		{ms: 60000},
	})
	if !c02Has(out, "A[100,3500)=3") {
		t.Errorf("want A[100,3500)=3, got %v", out)
	}
}

// F13 (minor): session re-delivery keeps window_id but window_start()/window_end()
// collapse to 0, so the re-delivered row is not "the previous result plus that event".
func TestC02_F13_SessionRedeliveryLosesWindowBounds(t *testing.T) {
	out := c02Run(t, "SessionWindow('2s')", ", ALLOWEDLATENESS='10s'", []c02ev{
		{ms: 100}, {ms: 500}, {ms: 5000}, // fires A[100,2500)=2
		{ms: 600},                        // late, inside the allowance
		{ms: 60000},
	})
	if !c02Has(out, "A[100,2500)=3") {
		t.Errorf("want re-delivery A[100,2500)=3 with unchanged bounds, got %v", out)
	}
}
