package e2e

// Audit of property C07 (post-aggregation clauses apply in relational order).
// Every test in this file FAILS on the unmodified checkout.

import (
	"fmt"
	"sort"
	"strings"
	"testing"
	"time"

	"github.com/rulego/streamsql"
)

const c07Base = int64(1700000000000) // aligned to a 1s window boundary

// c07Run executes sql, emits rows (all stamped with the same event time so they
// fall in one 1s tumbling window), pushes the watermark with one far-future row
// and returns the first emitted batch (nil when nothing is emitted in 1.5s).
func c07Run(t *testing.T, sql string, rows []map[string]any) []map[string]any {
	t.Helper()
	ssql := streamsql.New()
	defer ssql.Stop()
	if err := ssql.Execute(sql); err != nil {
		t.Fatalf("Execute(%s): %v", sql, err)
	}
	ch := make(chan []map[string]any, 16)
	ssql.AddSink(func(r []map[string]any) { ch <- r })
	for _, r := range rows {
		m := map[string]any{"ts": c07Base}
		for k, v := range r {
			m[k] = v
		}
		ssql.Emit(m)
	}
	// watermark push; lands in a later window, never in the first batch
	ssql.Emit(map[string]any{"ts": c07Base + 5000, "g": "zz_flush", "v": 0.0, "w": 0.0})
	select {
	case b := <-ch:
		return b
	case <-time.After(1500 * time.Millisecond):
		return nil
	}
}

const c07Win = ` TumblingWindow('1s') `
const c07With = ` WITH (TIMESTAMP='ts', TIMEUNIT='ms') `

// groups: a: v=1,2,3 (sum 6, count 3) w=10,20,30 ; b: v=10,20 (sum 30) w=1,2 ;
//         c: v=5 (sum 5) w=5 ; d: v=7,7 (sum 14) w=100,50
var c07Data = []map[string]any{
	{"g": "a", "v": 1.0, "w": 10.0, "n": 1.0},
	{"g": "a", "v": 2.0, "w": 20.0, "n": 1.0},
	{"g": "a", "v": 3.0, "w": 30.0, "n": 1.0},
	{"g": "b", "v": 10.0, "w": 1.0, "n": 1.0},
	{"g": "b", "v": 20.0, "w": 2.0, "n": 1.0},
	{"g": "c", "v": 5.0, "w": 5.0}, // no "n" at all in group c
	{"g": "d", "v": 7.0, "w": 100.0, "n": 1.0},
	{"g": "d", "v": 7.0, "w": 50.0, "n": 1.0},
}

func c07Groups(rows []map[string]any) string {
	var gs []string
	for _, r := range rows {
		gs = append(gs, fmt.Sprint(r["g"]))
	}
	sort.Strings(gs)
	return strings.Join(gs, ",")
}

func c07ByGroup(rows []map[string]any) map[string]map[string]any {
	m := map[string]map[string]any{}
	for _, r := range rows {
		m[fmt.Sprint(r["g"])] = r
	}
	return m
}

// F1: HAVING followed by ORDER BY (the clause order documented in rsql/doc.go).
// parseHaving does not stop at ORDER, so Having becomes "s > 5 ORDER BY s DESC",
// fails to compile at run time and every group is delivered.
func TestC07_F1_HavingFollowedByOrderBy(t *testing.T) {
	sql := `SELECT g, sum(v) AS s FROM stream GROUP BY g,` + c07Win + `HAVING s > 5 ORDER BY s DESC` + c07With
	got := c07Run(t, sql, c07Data)
	if g := c07Groups(got); g != "a,b,d" {
		t.Fatalf("HAVING s > 5 must keep exactly groups a,b,d (sums 6,30,14); got groups %q rows=%v", g, got)
	}
}

// F1 (processing-time variant, no WITH clause at all, exactly the documented grammar).
func TestC07_F1b_HavingFollowedByOrderBy_ProcessingTime(t *testing.T) {
	ssql := streamsql.New()
	defer ssql.Stop()
	sql := `SELECT g, sum(v) AS s FROM stream GROUP BY g, TumblingWindow('10s') HAVING s > 5 ORDER BY s DESC`
	if err := ssql.Execute(sql); err != nil {
		t.Fatal(err)
	}
	ch := make(chan []map[string]any, 16)
	ssql.AddSink(func(r []map[string]any) { ch <- r })
	for _, r := range c07Data {
		ssql.Emit(r)
	}
	time.Sleep(200 * time.Millisecond)
	ssql.TriggerWindow()
	select {
	case b := <-ch:
		for _, r := range b {
			if s, _ := r["s"].(float64); !(s > 5) {
				t.Fatalf("row %v delivered although HAVING s > 5 is false; batch=%v", r, b)
			}
		}
	case <-time.After(3 * time.Second):
		t.Fatal("no batch")
	}
}

// F2: HAVING written after the WITH(...) clause is silently ignored
// (the repo's own test/e2e/window_aggregate_combo_test.go uses this clause order).
func TestC07_F2_HavingAfterWithIgnored(t *testing.T) {
	sql := `SELECT g, sum(v) AS s FROM stream GROUP BY g,` + c07Win + c07With + `HAVING sum(v) > 5`
	got := c07Run(t, sql, c07Data)
	if g := c07Groups(got); g != "a,b,d" {
		t.Fatalf("HAVING sum(v) > 5 must keep exactly a,b,d; got %q rows=%v", g, got)
	}
}

// F3: alias that is also the name of an expr-lang builtin / registered function.
func TestC07_F3_HavingAliasNamedCount(t *testing.T) {
	sql := `SELECT g, count(*) AS count FROM stream GROUP BY g,` + c07Win + `HAVING count >= 2` + c07With
	got := c07Run(t, sql, c07Data)
	if g := c07Groups(got); g != "a,b,d" {
		t.Fatalf("HAVING count >= 2 must keep exactly a,b,d (counts 3,2,2; c has 1); got %q rows=%v", g, got)
	}
}

// F4: the substring "case" anywhere in HAVING routes to the CASE evaluator,
// whose boolean results are all treated as true.
func TestC07_F4_HavingAliasContainingCase(t *testing.T) {
	sql := `SELECT g, count(*) AS cases FROM stream GROUP BY g,` + c07Win + `HAVING cases > 1` + c07With
	got := c07Run(t, sql, c07Data)
	if g := c07Groups(got); g != "a,b,d" {
		t.Fatalf("HAVING cases > 1 must keep exactly a,b,d; got %q rows=%v", g, got)
	}
}

// F5: a parenthesised aggregate item disappears from the output.
func TestC07_F5_ParenthesisedAggregateDropped(t *testing.T) {
	sql := `SELECT g, (sum(v)) AS s FROM stream GROUP BY g,` + c07Win + c07With
	got := c07ByGroup(c07Run(t, sql, c07Data))
	want := map[string]float64{"a": 6, "b": 30, "c": 5, "d": 14}
	for g, w := range want {
		if v, ok := got[g]["s"].(float64); !ok || v != w {
			t.Errorf("group %s: (sum(v)) AS s = %v (present=%v), want %v; row=%v", g, got[g]["s"], ok, w, got[g])
		}
	}
}

// F6: aggregate over an expression argument used inside arithmetic gives NULL.
func TestC07_F6_ExprArgAggregateInArithmetic(t *testing.T) {
	sql := `SELECT g, sum(v*2) AS plain, sum(v*2) + 1 AS a, sum(v+w) - sum(v) AS b FROM stream GROUP BY g,` + c07Win + c07With
	got := c07ByGroup(c07Run(t, sql, c07Data))
	wantA := map[string]float64{"a": 13, "b": 61, "c": 11, "d": 29}
	wantB := map[string]float64{"a": 60, "b": 3, "c": 5, "d": 150}
	for g := range wantA {
		if v, ok := got[g]["a"].(float64); !ok || v != wantA[g] {
			t.Errorf("group %s: sum(v*2)+1 = %v, want %v (plain sum(v*2)=%v)", g, got[g]["a"], wantA[g], got[g]["plain"])
		}
		if v, ok := got[g]["b"].(float64); !ok || v != wantB[g] {
			t.Errorf("group %s: sum(v+w)-sum(v) = %v, want %v", g, got[g]["b"], wantB[g])
		}
	}
}

// F7: HAVING over a two-argument aggregate (percentile) drops every group.
func TestC07_F7_HavingPercentile(t *testing.T) {
	sql := `SELECT g, sum(v) AS s, percentile(v, 0.5) AS p FROM stream GROUP BY g,` + c07Win + `HAVING percentile(v, 0.5) > 6` + c07With
	got := c07Run(t, sql, c07Data)
	// SELECT-side percentile(v,0.5): a=2 b=10(or 15) c=5 d=7  -> b and d pass
	if g := c07Groups(got); g != "b,d" {
		t.Fatalf("HAVING percentile(v,0.5) > 6 must keep b,d; got %q rows=%v", g, got)
	}
}

// F8: agg(x) + agg(y) where agg(y) is NULL for the group yields the *string*
// form of the other operand instead of NULL (and '-' yields NULL: inconsistent).
func TestC07_F8_NullAggregatePlus(t *testing.T) {
	sql := `SELECT g, sum(v) + max(n) AS a, sum(v) - max(n) AS b FROM stream GROUP BY g,` + c07Win + c07With
	got := c07ByGroup(c07Run(t, sql, c07Data))
	if v, ok := got["a"]["a"].(float64); !ok || v != 7 {
		t.Errorf("group a: sum(v)+max(n) = %v, want 7", got["a"]["a"])
	}
	if got["c"]["a"] != nil {
		t.Errorf("group c: max(n) is NULL so sum(v)+max(n) must be NULL, got %#v (b=%#v)", got["c"]["a"], got["c"]["b"])
	}
}

// F9: DISTINCT never removes anything because the unselected GROUP BY key is
// part of every row.
func TestC07_F9_DistinctKeepsDuplicates(t *testing.T) {
	rows := []map[string]any{
		{"g": "a", "v": 3.0}, {"g": "b", "v": 3.0}, {"g": "c", "v": 3.0}, {"g": "d", "v": 4.0},
	}
	sql := `SELECT DISTINCT sum(v) AS s FROM stream GROUP BY g,` + c07Win + c07With
	got := c07Run(t, sql, rows)
	if len(got) != 2 {
		t.Fatalf("SELECT DISTINCT sum(v) AS s must deliver 2 rows (s=3, s=4); got %d: %v", len(got), got)
	}
}

// F10: LIMIT 0 delivers every row.
func TestC07_F10_LimitZero(t *testing.T) {
	sql := `SELECT g, sum(v) AS s FROM stream GROUP BY g,` + c07Win + c07With + `ORDER BY s DESC LIMIT 0`
	got := c07Run(t, sql, c07Data)
	if len(got) != 0 {
		t.Fatalf("LIMIT 0 must keep the first 0 rows; got %d rows: %v", len(got), got)
	}
}

// F11: HAVING NOT (<predicate>) is always false.
func TestC07_F11_HavingNot(t *testing.T) {
	sql := `SELECT g, sum(v) AS s FROM stream GROUP BY g,` + c07Win + `HAVING NOT (s > 5)` + c07With
	got := c07Run(t, sql, c07Data)
	if g := c07Groups(got); g != "c" {
		t.Fatalf("HAVING NOT (s > 5) must keep exactly group c (s=5); got %q rows=%v", g, got)
	}
}
