package streamsql

// Finding F16 (probabilistic, non-default "expand" overflow strategy): rows of ONE producer
// overtake each other while the producer's Emit call grows the input channel.
// Not deterministic: the test repeats the scenario until an inversion is seen (it needed
// 1-4 attempts on the audit machine) and passes only if none shows up in 40 attempts.

import (
	"sync"
	"testing"
	"time"

	"github.com/rulego/streamsql/types"
)

func TestC05_F16_ExpandStrategyReordersSingleProducer(t *testing.T) {
	for attempt := 1; attempt <= 40; attempt++ {
		cfg := types.DefaultPerformanceConfig()
		cfg.BufferConfig.DataChannelSize = 2
		cfg.BufferConfig.MaxBufferSize = 1000000
		cfg.OverflowConfig.Strategy = types.OverflowStrategyExpand
		cfg.OverflowConfig.ExpansionConfig.MinIncrement = 1
		cfg.OverflowConfig.ExpansionConfig.GrowthFactor = 1.0001
		cfg.OverflowConfig.ExpansionConfig.TriggerThreshold = 0.1

		s := New(WithDiscardLog(), WithCustomPerformance(cfg))
		if err := s.Execute("SELECT seq FROM stream WHERE seq >= 0"); err != nil {
			t.Fatal(err)
		}
		var mu sync.Mutex
		var got []int
		s.AddSyncSink(func(r []map[string]interface{}) {
			mu.Lock()
			for _, m := range r {
				got = append(got, m["seq"].(int))
			}
			mu.Unlock()
		})
		go func() { // keep the result channel drained
			for range s.ToChannel() {
			}
		}()
		const n = 8000
		for i := 0; i < n; i++ { // single producer, strictly increasing seq
			s.Emit(map[string]interface{}{"seq": i})
		}
		time.Sleep(300 * time.Millisecond)
		s.Stop()
		mu.Lock()
		for i := 1; i < len(got); i++ {
			if got[i] < got[i-1] {
				t.Errorf("attempt %d: sync sink saw seq %d after seq %d (delivered %d of %d rows)", attempt, got[i], got[i-1], len(got), n)
				mu.Unlock()
				return
			}
		}
		mu.Unlock()
	}
}
