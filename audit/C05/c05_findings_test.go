package streamsql

// Audit of property C05 (non-aggregate queries are a stateless, ordered, row-wise
// filter + projection). One test function per finding; every test fails on the
// unmodified checkout. Place this file in the repository root (package streamsql).

import (
	"fmt"
	"reflect"
	"testing"
	"time"
)

// c05Norm converts every numeric to float64 so that 1, int64(1) and 1.0 compare equal.
func c05Norm(v interface{}) interface{} {
	switch x := v.(type) {
	case map[string]interface{}:
		if x == nil {
			return nil
		}
		out := make(map[string]interface{}, len(x))
		for k, e := range x {
			out[k] = c05Norm(e)
		}
		return out
	case []interface{}:
		out := make([]interface{}, len(x))
		for i, e := range x {
			out[i] = c05Norm(e)
		}
		return out
	case int, int8, int16, int32, int64, uint, uint8, uint16, uint32, uint64, float32:
		return reflect.ValueOf(x).Convert(reflect.TypeOf(float64(0))).Float()
	}
	return v
}

// c05Run executes sql on a fresh instance and pushes row through BOTH API paths.
// It returns what EmitSync returned (nil = filtered out) and reports a test error when
// the Emit path (sync sink) disagrees with EmitSync.
func c05Run(t *testing.T, sql string, row map[string]interface{}) (map[string]interface{}, bool) {
	t.Helper()
	s := New(WithDiscardLog())
	defer s.Stop()
	if err := s.Execute(sql); err != nil {
		t.Errorf("%s\n   Execute failed: %v", sql, err)
		return nil, false
	}
	got, err := s.EmitSync(row)
	if err != nil {
		t.Errorf("%s\n   EmitSync failed: %v", sql, err)
		return nil, false
	}
	ch := make(chan []map[string]interface{}, 4)
	s.AddSyncSink(func(r []map[string]interface{}) { ch <- r })
	s.Emit(row)
	select {
	case r := <-ch:
		if got == nil || len(r) != 1 || !reflect.DeepEqual(c05Norm(r[0]), c05Norm(got)) {
			t.Errorf("%s\n   Emit delivered %#v but EmitSync returned %#v", sql, r, got)
		}
	case <-time.After(300 * time.Millisecond):
		if got != nil {
			t.Errorf("%s\n   Emit delivered nothing but EmitSync returned %#v", sql, got)
		}
	}
	return got, true
}

func c05Expect(t *testing.T, sql string, row, want map[string]interface{}) {
	t.Helper()
	got, ok := c05Run(t, sql, row)
	if !ok {
		return
	}
	var g, w interface{}
	if got != nil {
		g = c05Norm(got)
	}
	if want != nil {
		w = c05Norm(want)
	}
	if !reflect.DeepEqual(g, w) {
		t.Errorf("%s\n   row:      %#v\n   expected: %#v\n   actual:   %#v", sql, row, want, got)
	}
}

type M = map[string]interface{}

// F1: "SELECT *, <plain column> AS alias" silently drops the aliased column.
func TestC05_F01_StarPlusAliasedColumnDropped(t *testing.T) {
	c05Expect(t, "SELECT *, a AS x FROM stream", M{"a": 1, "b": 2}, M{"a": 1, "b": 2, "x": 1})
	// an expression next to * survives, a plain/nested column does not
	c05Expect(t, "SELECT *, d.k AS k, a + 1 AS a1 FROM stream", M{"a": 1, "d": M{"k": "v"}}, M{"a": 1, "d": M{"k": "v"}, "k": "v", "a1": 2})
}

// F2: an un-aliased function call leaks its first argument as an extra output column
// (and for multi-argument calls the function column itself is lost).
func TestC05_F02_UnaliasedFunctionLeaksArgumentColumn(t *testing.T) {
	got, ok := c05Run(t, "SELECT upper(s) FROM stream", M{"s": "hi", "a": 1})
	if ok && (len(got) != 1 || got["upper(s)"] != "HI") {
		t.Errorf("SELECT upper(s): expected exactly one column upper(s)=HI, got %#v", got)
	}
	got, ok = c05Run(t, "SELECT abs(a - b) FROM stream", M{"a": 1, "b": 2.5})
	if ok && len(got) != 1 {
		t.Errorf("SELECT abs(a - b): expected exactly one column, got %#v", got)
	}
	got, ok = c05Run(t, "SELECT round(b, 0) FROM stream", M{"b": 2.5})
	if ok {
		if _, leaked := got["b"]; leaked || len(got) != 1 {
			t.Errorf("SELECT round(b, 0): expected one column holding 3, got %#v", got)
		}
	}
	// the leaked column even makes a perfectly ordinary query fail to start
	c05Expect(t, "SELECT a, abs(a) AS m FROM stream", M{"a": -1}, M{"a": -1, "m": 1}) // control: passes
	c05Run(t, "SELECT a, abs(a) FROM stream", M{"a": -1})                               // "ambiguous output column a"
}

// F3: numeric and boolean literals in the select list come out as NULL.
func TestC05_F03_NumericAndBooleanLiteralColumnsAreNull(t *testing.T) {
	c05Expect(t, "SELECT 'lit' AS l, 5 AS five, 1.5 AS f, true AS tt FROM stream", M{"a": 1},
		M{"l": "lit", "five": 5, "f": 1.5, "tt": true})
}

// F4: a comparison on a NULL / missing operand aborts the whole WHERE predicate, so
// "unknown OR true" is false and OR is not commutative.
func TestC05_F04_WhereNullComparisonAbortsDisjunction(t *testing.T) {
	c05Expect(t, "SELECT a FROM stream WHERE a = 1 OR n > 5", M{"a": 1, "n": nil}, M{"a": 1}) // control: passes
	c05Expect(t, "SELECT a FROM stream WHERE n > 5 OR a = 1", M{"a": 1, "n": nil}, M{"a": 1})
	c05Expect(t, "SELECT a FROM stream WHERE missing > 5 OR a = 1", M{"a": 1}, M{"a": 1})
	c05Expect(t, "SELECT a FROM stream WHERE n >= 0 OR n < 0 OR n IS NULL", M{"a": 1, "n": nil}, M{"a": 1})
}

// F4b: a nested path whose parent is missing is not NULL in WHERE (it is in SELECT).
func TestC05_F04b_WhereNestedPathThroughMissingParent(t *testing.T) {
	c05Expect(t, "SELECT zz.yy AS v FROM stream", M{"a": 1}, M{"v": nil})                // control: missing => NULL
	c05Expect(t, "SELECT a FROM stream WHERE d.zz IS NULL", M{"a": 1, "d": M{}}, M{"a": 1}) // control: passes
	c05Expect(t, "SELECT a FROM stream WHERE zz.yy IS NULL", M{"a": 1}, M{"a": 1})
	c05Expect(t, "SELECT a FROM stream WHERE zz.yy = 1 OR a = 1", M{"a": 1}, M{"a": 1})
}

// F5: the IS NULL rewrite is applied inside string literals of the WHERE clause.
func TestC05_F05_WhereStringLiteralRewrittenByIsNullRegex(t *testing.T) {
	c05Expect(t, "SELECT a FROM stream WHERE s = 'x IS NULL'", M{"a": 1, "s": "x IS NULL"}, M{"a": 1})
	c05Expect(t, "SELECT a FROM stream WHERE s = 'x IS NULL'", M{"a": 1, "s": "x == nil"}, nil)
}

// F6: IS [NOT] NULL / LIKE as a select item is treated as a column name and yields NULL.
func TestC05_F06_SelectIsNullAndLikeItemsAreNull(t *testing.T) {
	c05Expect(t, "SELECT a = 1 AS r0, n IS NULL AS r1, a IS NOT NULL AS r2, s LIKE 'h%' AS r3 FROM stream",
		M{"a": 1, "n": nil, "s": "hi"}, M{"r0": true, "r1": true, "r2": true, "r3": true})
}

// F7: any select expression that contains parentheses is handed verbatim to expr-lang,
// which knows neither CASE nor SQL "=" / AND / OR, so the column silently becomes NULL.
func TestC05_F07_ParenthesisedSelectExpressionsBecomeNull(t *testing.T) {
	row := M{"a": 1, "b": 2.5, "s": "hi", "neg": -3, "temperature": 24, "humidity": 50}
	c05Expect(t, "SELECT CASE WHEN a = 1 THEN 'x' ELSE 'y' END AS r FROM stream", row, M{"r": "x"}) // control: passes
	c05Expect(t, "SELECT CASE WHEN (a = 1) THEN 'x' ELSE 'y' END AS r FROM stream", row, M{"r": "x"})
	c05Expect(t, "SELECT CASE WHEN abs(neg) > 2 THEN 'big' ELSE 'small' END AS r FROM stream", row, M{"r": "big"})
	// taken from docs/FUNCTION_INTEGRATION.md
	c05Expect(t, "SELECT CASE WHEN ABS(temperature - 25) < 2 AND humidity > 40 THEN 'OPTIMAL' ELSE 'NO' END AS r FROM stream", row, M{"r": "OPTIMAL"})
	c05Expect(t, "SELECT CASE WHEN a = 1 THEN upper(s) ELSE s END AS r FROM stream", row, M{"r": "HI"})
	c05Expect(t, "SELECT (a = 1) AND (b > 2) AS r FROM stream", row, M{"r": true})
	c05Expect(t, "SELECT upper(s) = 'HI' AS r FROM stream", row, M{"r": true})
}

// F8: true / false are not literals for the select-list expression engine.
func TestC05_F08_BooleanLiteralsInSelectExpressions(t *testing.T) {
	row := M{"a": 1, "t": true, "f": false}
	c05Expect(t, "SELECT CASE WHEN t = true THEN 'on' ELSE 'off' END AS r FROM stream", row, M{"r": "on"})
	c05Expect(t, "SELECT CASE WHEN a = 1 THEN false ELSE true END AS r FROM stream", row, M{"r": false})
	c05Expect(t, "SELECT true OR false AS r FROM stream", row, M{"r": true})
	c05Expect(t, "SELECT CASE WHEN true THEN 1 ELSE 0 END AS r FROM stream", row, M{"r": 1})
}

// F9: a missing column inside a comparison of a select expression is an error, not NULL.
func TestC05_F09_MissingColumnInSelectComparison(t *testing.T) {
	c05Expect(t, "SELECT CASE WHEN m = 0 THEN 'zero' ELSE 'other' END AS r FROM stream", M{"a": 1, "m": nil}, M{"r": "other"}) // control: passes
	c05Expect(t, "SELECT CASE WHEN m = 0 THEN 'zero' ELSE 'other' END AS r FROM stream", M{"a": 1}, M{"r": "other"})
	c05Expect(t, "SELECT a = 1 OR m = 0 AS r FROM stream", M{"a": 1}, M{"r": true}) // control: passes (short circuit)
	c05Expect(t, "SELECT m = 0 OR a = 1 AS r FROM stream", M{"a": 1}, M{"r": true})
}

// F10: NOT is not understood by the select-list expression engine.
func TestC05_F10_NotInSelectExpression(t *testing.T) {
	row := M{"a": 1, "t": true, "f": false}
	c05Expect(t, "SELECT CASE WHEN NOT a = 2 THEN 1 ELSE 0 END AS r FROM stream", row, M{"r": 1})
	c05Expect(t, "SELECT CASE WHEN t AND NOT f THEN 1 ELSE 0 END AS r FROM stream", row, M{"r": 1})
}

// F11: CASE is only understood as the outermost construct of a select item.
func TestC05_F11_NestedCaseAndCaseInsideArithmetic(t *testing.T) {
	row := M{"a": 1, "b": 2.5}
	c05Expect(t, "SELECT CASE WHEN a = 1 THEN CASE WHEN b > 2 THEN 'in' ELSE 'x' END ELSE 'out' END AS r FROM stream", row, M{"r": "in"})
	c05Expect(t, "SELECT CASE WHEN a = 1 THEN 1 ELSE 0 END + 10 AS r FROM stream", row, M{"r": 11})
}

// F12: string concatenation splits on every '+', also inside string literals.
func TestC05_F12_ConcatSplitsPlusInsideLiteral(t *testing.T) {
	c05Expect(t, "SELECT s + '-' + s2 AS r FROM stream", M{"s": "hi", "s2": "10"}, M{"r": "hi-10"}) // control: passes
	c05Expect(t, "SELECT s + ' + ' + s2 AS r FROM stream", M{"s": "hi", "s2": "10"}, M{"r": "hi + 10"})
}

// F13: a back-quoted identifier that contains an operator character is evaluated as an
// expression over other columns (the library's own lexer/validator tests accept `device-id`).
func TestC05_F13_BacktickIdentifierWithHyphen(t *testing.T) {
	row := M{"a": 1, "b": 2.5, "a-b": 12, "user-id": "u1", "user": 7, "id": 3}
	c05Expect(t, "SELECT `a-b` AS x FROM stream", row, M{"x": 12})
	c05Expect(t, "SELECT a FROM stream WHERE `user-id` = 'u1'", row, M{"a": 1})
	got, ok := c05Run(t, "SELECT `user-id` FROM stream", row)
	if ok && len(got) != 1 {
		t.Errorf("SELECT `user-id`: expected exactly one column, got %#v", got)
	}
}

// F14: an un-aliased string literal containing ':' is split into "column:alias".
func TestC05_F14_UnaliasedLiteralWithColon(t *testing.T) {
	got, ok := c05Run(t, "SELECT 'a:b' FROM stream", M{"a": 1})
	if ok && (len(got) != 1 || got["a:b"] != "a:b") {
		t.Errorf("SELECT 'a:b': expected exactly one column a:b='a:b', got %#v", got)
	}
}

// F15: "SELECT a a2" (alias without AS) is accepted and produces a column named "a a2" = NULL.
func TestC05_F15_ImplicitAliasAccepted(t *testing.T) {
	s := New(WithDiscardLog())
	defer s.Stop()
	if err := s.Execute("SELECT a a2 FROM stream"); err != nil {
		return // rejecting the syntax would be fine
	}
	got, _ := s.EmitSync(M{"a": 1})
	if !reflect.DeepEqual(c05Norm(got), c05Norm(M{"a2": 1})) {
		t.Errorf("SELECT a a2: expected {a2:1} (or an Execute error), got %#v", got)
	}
}

// F17 (low confidence, SQL three-valued logic): "<>"-style comparisons with NULL are TRUE.
func TestC05_F17_WhereNotEqualOnNullIsTrue(t *testing.T) {
	c05Expect(t, "SELECT a FROM stream WHERE n != 1", M{"a": 1, "n": nil}, nil)
	c05Expect(t, "SELECT a FROM stream WHERE n = NULL", M{"a": 1, "n": nil}, nil)
}

var _ = fmt.Sprint
