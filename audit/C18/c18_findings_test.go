package streamsql_test

// Audit of property C18 (lifecycle safety / Stop is a barrier).
// Place this file in the repository root (package streamsql_test) and run:
//   go test -run 'TestC18_' -count=1 -v .
// Every test below FAILS on the unmodified checkout.

import (
	"os"
	"os/exec"
	"sync"
	"sync/atomic"
	"testing"
	"time"

	"github.com/rulego/streamsql"
	"github.com/rulego/streamsql/functions"
	"github.com/rulego/streamsql/logger"
	"github.com/rulego/streamsql/schema"
	"github.com/rulego/streamsql/types"
	"github.com/rulego/streamsql/utils/cast"
)

func c18New(opts ...streamsql.Option) *streamsql.Streamsql {
	return streamsql.New(append([]streamsql.Option{streamsql.WithLogger(logger.NewDiscardLogger())}, opts...)...)
}

// c18RegisterBoom13 registers a scalar function that panics for the value 13 only:
// the "panicking row" of the property (same idea as the library's own J2 test, which
// uses a TableSource.Lookup that panics for one key).
func c18RegisterBoom13(t *testing.T) {
	t.Helper()
	_ = functions.Unregister("c18boom13")
	err := functions.RegisterCustomFunction("c18boom13", functions.TypeMath, "audit", "panics on 13", 1, 1,
		func(ctx *functions.FunctionContext, args []any) (any, error) {
			v := cast.ToFloat64(args[0])
			if v == 13 {
				panic("c18boom13: row 13")
			}
			return v, nil
		})
	if err != nil {
		t.Fatal(err)
	}
	t.Cleanup(func() { functions.Unregister("c18boom13") })
}

// ---------------------------------------------------------------------------------------------
// F1: a panicking row kills the window-output consumer goroutine: every later window is lost.
// ---------------------------------------------------------------------------------------------
func TestC18_F1_PanickingRowStopsAllLaterWindows(t *testing.T) {
	c18RegisterBoom13(t)
	run := func(sql string, first int) int {
		ssql := c18New()
		if err := ssql.Execute(sql); err != nil {
			t.Fatalf("execute: %v", err)
		}
		defer ssql.Stop()
		var mu sync.Mutex
		var later int
		ssql.AddSink(func(rows []map[string]any) {
			mu.Lock()
			defer mu.Unlock()
			for _, r := range rows {
				if f, ok := r["r"].(float64); ok && f == 3 { // windows made of the later rows {1,2}
					later++
				}
			}
		})
		// window 1: the (possibly) panicking rows
		ssql.Emit(map[string]any{"v": first})
		ssql.Emit(map[string]any{"v": first})
		time.Sleep(100 * time.Millisecond)
		// windows 2..4: ordinary rows
		for i := 0; i < 3; i++ {
			ssql.Emit(map[string]any{"v": 1})
			ssql.Emit(map[string]any{"v": 2})
		}
		deadline := time.Now().Add(2 * time.Second)
		for time.Now().Before(deadline) {
			mu.Lock()
			n := later
			mu.Unlock()
			if n >= 3 {
				break
			}
			time.Sleep(10 * time.Millisecond)
		}
		mu.Lock()
		defer mu.Unlock()
		return later
	}
	sql := `SELECT sum(c18boom13(v)) AS r FROM stream GROUP BY CountingWindow(2)`
	if n := run(sql, 14); n != 3 {
		t.Fatalf("control (no panicking row): got %d later windows, want 3", n)
	}
	if n := run(sql, 13); n != 3 {
		t.Errorf("after one panicking row: got %d of the 3 later windows (rows emitted after the panic are never processed)", n)
	}
}

// ---------------------------------------------------------------------------------------------
// F2: MATCH_RECOGNIZE flush runs the sinks inline inside Stop, after the grace period logic:
//     a slow/blocked sink keeps Stop from returning (no bound at all).
// ---------------------------------------------------------------------------------------------
func TestC18_F2_CepFlushSlowSinkStopExceedsGrace(t *testing.T) {
	ssql := c18New()
	if err := ssql.Execute(`SELECT * FROM stream MATCH_RECOGNIZE (ORDER BY ts MEASURES COUNT(A.v) AS c PATTERN (A+) DEFINE A AS v > 0)`); err != nil {
		t.Fatal(err)
	}
	release := make(chan struct{})
	defer close(release)
	var calls int32
	ssql.AddSink(func(rows []map[string]any) { // a slow sink: only ever called from the Stop flush here
		atomic.AddInt32(&calls, 1)
		<-release
	})
	ssql.Emit(map[string]any{"v": 1, "ts": 1})
	ssql.Emit(map[string]any{"v": 2, "ts": 2}) // open A+ run: produced only by the flush in Stop
	time.Sleep(100 * time.Millisecond)
	done := make(chan struct{})
	go func() { ssql.Stop(); close(done) }()
	select {
	case <-done:
	case <-time.After(8 * time.Second): // grace period is 5s
		t.Errorf("Stop still blocked after 8s (grace period 5s); sink calls=%d", atomic.LoadInt32(&calls))
	}
}

// ---------------------------------------------------------------------------------------------
// F3: a second, concurrent Stop returns at once while the first one is still draining: for that
//     caller Stop is no barrier (a sink is still running / will still be invoked).
// ---------------------------------------------------------------------------------------------
func TestC18_F3_SecondConcurrentStopIsNoBarrier(t *testing.T) {
	ssql := c18New()
	if err := ssql.Execute(`SELECT v FROM stream`); err != nil {
		t.Fatal(err)
	}
	var running int32
	entered := make(chan struct{}, 1)
	ssql.AddSink(func(rows []map[string]any) {
		atomic.StoreInt32(&running, 1)
		entered <- struct{}{}
		time.Sleep(time.Second) // slow, but far inside the grace period
		atomic.StoreInt32(&running, 0)
	})
	ssql.Emit(map[string]any{"v": 1})
	<-entered
	first := make(chan struct{})
	go func() { ssql.Stop(); close(first) }()
	time.Sleep(100 * time.Millisecond)
	ssql.Stop() // second caller
	if atomic.LoadInt32(&running) == 1 {
		t.Errorf("second Stop returned while a sink was still running")
	}
	<-first
	if atomic.LoadInt32(&running) == 1 {
		t.Errorf("first Stop returned while a sink was still running")
	}
}

// ---------------------------------------------------------------------------------------------
// F4: EmitSync is not covered by Stop at all.
//   a) after Stop has returned EmitSync still processes the row and invokes sinks
//   b) a sink that EmitSync runs inline (worker pool full) is not joined by Stop
// ---------------------------------------------------------------------------------------------
func TestC18_F4a_EmitSyncAfterStopInvokesSink(t *testing.T) {
	ssql := c18New()
	if err := ssql.Execute(`SELECT v FROM stream`); err != nil {
		t.Fatal(err)
	}
	var calls int32
	ssql.AddSyncSink(func(rows []map[string]any) { atomic.AddInt32(&calls, 1) })
	ssql.Stop()
	res, err := ssql.EmitSync(map[string]any{"v": 1})
	if n := atomic.LoadInt32(&calls); n != 0 {
		t.Errorf("sink invoked %d time(s) after Stop returned (EmitSync result=%v err=%v)", n, res, err)
	}
}

func TestC18_F4b_EmitSyncInlineSinkOutlivesStop(t *testing.T) {
	ssql := c18New() // default config: 2 sink workers, queue of 4
	if err := ssql.Execute(`SELECT v FROM stream`); err != nil {
		t.Fatal(err)
	}
	const workers, queue = 2, 4
	gate := make(chan struct{})
	inlineStarted := make(chan struct{})
	var n, running int32
	ssql.AddSink(func(rows []map[string]any) {
		i := atomic.AddInt32(&n, 1)
		switch {
		case i <= workers:
			<-gate // keep both workers busy for a moment
		case i == workers+1:
			// first invocation that is not on a worker: queue was full => inline in EmitSync's caller
			atomic.StoreInt32(&running, 1)
			close(inlineStarted)
			time.Sleep(1500 * time.Millisecond) // slow sink, far inside the grace period
			atomic.StoreInt32(&running, 0)
		}
	})
	for i := 0; i < workers; i++ {
		ssql.EmitSync(map[string]any{"v": i})
	}
	for atomic.LoadInt32(&n) < workers {
		time.Sleep(time.Millisecond)
	}
	for i := 0; i < queue; i++ {
		ssql.EmitSync(map[string]any{"v": 100 + i})
	}
	go ssql.EmitSync(map[string]any{"v": 999})
	<-inlineStarted
	close(gate)
	t0 := time.Now()
	ssql.Stop()
	if atomic.LoadInt32(&running) == 1 {
		t.Errorf("Stop returned after %v while a sink invocation was still running", time.Since(t0))
	}
}

// ---------------------------------------------------------------------------------------------
// F5: Stop itself panics when the MATCH_RECOGNIZE flush hits a panicking row (no recover around
//     engine.Flush()/projectCep in Stop; the same row is recovered on the Emit path).
// ---------------------------------------------------------------------------------------------
func TestC18_F5_StopPanicsWhenCepFlushHitsPanickingRow(t *testing.T) {
	c18RegisterBoom13(t)
	ssql := c18New()
	if err := ssql.Execute(`SELECT * FROM stream MATCH_RECOGNIZE (ORDER BY ts MEASURES c18boom13(LAST(A.v)) AS c PATTERN (A+) DEFINE A AS v > 0)`); err != nil {
		t.Fatal(err)
	}
	ssql.AddSink(func(rows []map[string]any) {})
	ssql.Emit(map[string]any{"v": 13, "ts": 1})
	ssql.Emit(map[string]any{"v": 13, "ts": 2})
	time.Sleep(100 * time.Millisecond)
	defer func() {
		if r := recover(); r != nil {
			t.Errorf("Stop panicked: %v", r)
		}
	}()
	ssql.Stop()
}

// ---------------------------------------------------------------------------------------------
// F6: overflow strategy "block" without timeout + a sink that calls Emit on the same instance:
//     the pipeline deadlocks (processor runs the sink inline and waits for itself).
// ---------------------------------------------------------------------------------------------
func TestC18_F6_BlockStrategyReentrantSinkDeadlocks(t *testing.T) {
	pc := types.DefaultPerformanceConfig()
	pc.OverflowConfig.Strategy = "block"
	pc.OverflowConfig.BlockTimeout = 0 // documented: block forever (pure backpressure)
	pc.BufferConfig.DataChannelSize = 2
	ssql := c18New(streamsql.WithCustomPerformance(pc))
	if err := ssql.Execute(`SELECT gen, v FROM stream`); err != nil {
		t.Fatal(err)
	}
	defer ssql.Stop()
	var gen0, gen1 int32
	ssql.AddSink(func(rows []map[string]any) {
		for _, r := range rows {
			if g, _ := r["gen"].(int); g == 0 {
				atomic.AddInt32(&gen0, 1)
				ssql.Emit(map[string]any{"gen": 1, "v": r["v"]}) // one follow-up row per input row
			} else {
				atomic.AddInt32(&gen1, 1)
			}
		}
	})
	done := make(chan struct{})
	go func() {
		for i := 0; i < 200; i++ {
			ssql.Emit(map[string]any{"gen": 0, "v": i})
		}
		close(done)
	}()
	select {
	case <-done:
	case <-time.After(5 * time.Second):
		t.Errorf("deadlock: producer blocked in Emit for 5s, processed gen0=%d gen1=%d of 200+200; stats=%v",
			atomic.LoadInt32(&gen0), atomic.LoadInt32(&gen1), ssql.GetStats())
	}
}

// ---------------------------------------------------------------------------------------------
// F7: SessionWindow('1ns') in processing time: the first Emit crashes the whole process
//     (time.NewTicker(timeout/2) with 0 in an unrecovered goroutine). Run in a child process.
// ---------------------------------------------------------------------------------------------
func TestC18_F7_TinySessionWindowCrashesProcess(t *testing.T) {
	if os.Getenv("C18_F7_CHILD") == "1" {
		ssql := c18New()
		if err := ssql.Execute(`SELECT count(*) AS c FROM stream GROUP BY SessionWindow('1ns')`); err != nil {
			return // rejected at Execute: fine
		}
		ssql.AddSink(func(rows []map[string]any) {})
		ssql.Emit(map[string]any{"v": 1})
		time.Sleep(300 * time.Millisecond)
		ssql.Stop()
		return
	}
	cmd := exec.Command(os.Args[0], "-test.run=^TestC18_F7_TinySessionWindowCrashesProcess$")
	cmd.Env = append(os.Environ(), "C18_F7_CHILD=1")
	out, err := cmd.CombinedOutput()
	if err != nil {
		if len(out) > 600 {
			out = out[:600]
		}
		t.Errorf("child process died: %v\n%s", err, out)
	}
}

// ---------------------------------------------------------------------------------------------
// F8: EmitSync lets a panicking row (TableSource.Lookup panic, as in the library's J2 test)
//     escape into the caller; the same row through Emit is recovered.
// ---------------------------------------------------------------------------------------------
type c18PanicLookup struct{}

func (c18PanicLookup) Name() string { return "meta" }
func (c18PanicLookup) Init() error  { return nil }
func (c18PanicLookup) Close() error { return nil }
func (c18PanicLookup) Lookup(key any) (map[string]any, bool) {
	if ks, _ := key.([]any); len(ks) > 0 && ks[0] == "boom" {
		panic("lookup boom")
	}
	return map[string]any{"deviceId": "ok", "loc": "x"}, true
}

func TestC18_F8_EmitSyncPanickingRowEscapesToCaller(t *testing.T) {
	ssql := c18New()
	if err := ssql.Execute(`SELECT deviceId, m.loc FROM stream JOIN meta m ON deviceId = m.deviceId`); err != nil {
		t.Fatal(err)
	}
	defer ssql.Stop()
	if err := ssql.RegisterTableSource(c18PanicLookup{}); err != nil {
		t.Fatal(err)
	}
	func() {
		defer func() {
			if r := recover(); r != nil {
				t.Errorf("EmitSync panicked into the caller: %v", r)
			}
		}()
		ssql.EmitSync(map[string]any{"deviceId": "boom"})
	}()
	if r, err := ssql.EmitSync(map[string]any{"deviceId": "ok"}); err != nil || r == nil {
		t.Errorf("later row not processed: %v %v", r, err)
	}
}

// ---------------------------------------------------------------------------------------------
// F9: Emit(nil)/EmitSync(nil) panics in the caller when a schema with a default is configured.
// ---------------------------------------------------------------------------------------------
func TestC18_F9_EmitNilRowWithSchemaDefaultPanics(t *testing.T) {
	ssql := c18New(streamsql.WithSchema(schema.Schema{Name: "s", Fields: []schema.FieldDef{{Name: "v", Type: schema.TypeInt, Default: 1}}}))
	if err := ssql.Execute(`SELECT v FROM stream`); err != nil {
		t.Fatal(err)
	}
	defer ssql.Stop()
	for name, f := range map[string]func(){
		"Emit":     func() { ssql.Emit(nil) },
		"EmitSync": func() { ssql.EmitSync(nil) },
	} {
		func() {
			defer func() {
				if r := recover(); r != nil {
					t.Errorf("%s(nil) panicked: %v", name, r)
				}
			}()
			f()
		}()
	}
}

// ---------------------------------------------------------------------------------------------
// F10 (low): Emit after Stop is not a no-op: it is counted as input.
// ---------------------------------------------------------------------------------------------
func TestC18_F10_EmitAfterStopIsCounted(t *testing.T) {
	ssql := c18New()
	if err := ssql.Execute(`SELECT v FROM stream`); err != nil {
		t.Fatal(err)
	}
	ssql.Stop()
	before := ssql.GetStats()["input_count"]
	ssql.Emit(map[string]any{"v": 1})
	if after := ssql.GetStats()["input_count"]; after != before {
		t.Errorf("Emit after Stop changed input_count %d -> %d (dropped_count stays %d)", before, after, ssql.GetStats()["dropped_count"])
	}
}
