package streamsql

// Audit of property C14 (analytic functions sequential per partition, isolated
// across partitions). One test function per finding; every test FAILS on the
// unmodified checkout. Place this file in the repository root (package streamsql).

import (
	"fmt"
	"reflect"
	"testing"
)

type c14row = map[string]interface{}

// c14run executes sql on a fresh engine and pushes rows through EmitSync,
// returning one result per input row (nil = filtered / suppressed).
func c14run(t *testing.T, sql string, rows []c14row, opts ...Option) []c14row {
	t.Helper()
	s := New(opts...)
	defer s.Stop()
	if err := s.Execute(sql); err != nil {
		t.Fatalf("Execute(%q) returned an error (an explicit error would be acceptable behaviour, "+
			"adjust the test if this starts happening): %v", sql, err)
	}
	out := make([]c14row, 0, len(rows))
	for _, r := range rows {
		cp := c14row{}
		for k, v := range r {
			cp[k] = v
		}
		res, err := s.EmitSync(cp)
		if err != nil {
			t.Fatalf("EmitSync: %v", err)
		}
		out = append(out, res)
	}
	return out
}

// c14col extracts one output column; "<filtered>" for dropped rows, "<absent>"
// when the column is not in the output row.
func c14col(out []c14row, col string) []interface{} {
	vals := make([]interface{}, len(out))
	for i, r := range out {
		switch {
		case r == nil:
			vals[i] = "<filtered>"
		default:
			v, ok := r[col]
			if !ok {
				vals[i] = "<absent>"
			} else {
				vals[i] = v
			}
		}
	}
	return vals
}

func c14eq(a, b []interface{}) bool {
	if len(a) != len(b) {
		return false
	}
	for i := range a {
		af, aok := c14num(a[i])
		bf, bok := c14num(b[i])
		if aok && bok {
			if af != bf {
				return false
			}
			continue
		}
		if !reflect.DeepEqual(a[i], b[i]) {
			return false
		}
	}
	return true
}

func c14num(v interface{}) (float64, bool) {
	switch n := v.(type) {
	case int:
		return float64(n), true
	case int64:
		return float64(n), true
	case float64:
		return n, true
	}
	return 0, false
}

func c14check(t *testing.T, what string, got, want []interface{}) {
	t.Helper()
	if !c14eq(got, want) {
		t.Errorf("%s\n   got:  %s\n   want: %s", what, c14fmt(got), c14fmt(want))
	}
}

func c14fmt(v []interface{}) string {
	s := "["
	for i, x := range v {
		if i > 0 {
			s += ", "
		}
		s += fmt.Sprintf("%#v", x)
	}
	return s + "]"
}

// ---------------------------------------------------------------------------
// F1: a row in which the argument column is MISSING feeds the column NAME (a
// string) into the state machine instead of NULL.
// ---------------------------------------------------------------------------
func TestC14_F1_MissingColumnBecomesColumnNameString(t *testing.T) {
	rows := []c14row{
		{"k": "a", "v": 1.0},
		{"k": "b", "v": 10.0},
		{"k": "a"}, // v missing
		{"k": "a", "v": 3.0},
		{"k": "b", "v": 20.0},
	}
	// lag: NULL is skipped (ignoreNull default true) -> the 4th row must see 1.
	out := c14run(t, "SELECT k, lag(v) OVER (PARTITION BY k) AS p FROM stream", rows)
	c14check(t, "lag(v) with a missing v", c14col(out, "p"), []interface{}{nil, nil, 1.0, 1.0, 10.0})

	// latest: the missing row must keep reporting 1.
	out = c14run(t, "SELECT k, latest(v) OVER (PARTITION BY k) AS p FROM stream", rows)
	c14check(t, "latest(v) with a missing v", c14col(out, "p"), []interface{}{1.0, 10.0, 1.0, 3.0, 20.0})

	// acc_count counts non-NULL values only: a = 1,1(missing),2 ; b = 1,2
	out = c14run(t, "SELECT k, acc_count(v) OVER (PARTITION BY k) AS p FROM stream", rows)
	c14check(t, "acc_count(v) with a missing v", c14col(out, "p"), []interface{}{1, 1, 1, 2, 2})

	// had_changed(true, v): a NULL is ignored -> the missing row is "not changed"
	// and is filtered; same input with an explicit v:nil behaves correctly.
	out = c14run(t, "SELECT k FROM stream WHERE had_changed(true, v) OVER (PARTITION BY k)", rows)
	c14check(t, "WHERE had_changed(true, v) with a missing v", c14col(out, "k"),
		[]interface{}{"a", "b", "<filtered>", "a", "b"})
}

// ---------------------------------------------------------------------------
// F2: a nested-path argument (d.v) is resolved to the unrelated top-level
// column with the same last segment (v).
// ---------------------------------------------------------------------------
func TestC14_F2_NestedPathArgumentReadsWrongColumn(t *testing.T) {
	rows := []c14row{
		{"k": "a", "v": 1.0, "d": map[string]interface{}{"v": 100.0}},
		{"k": "b", "v": 2.0, "d": map[string]interface{}{"v": 200.0}},
		{"k": "a", "v": 3.0, "d": map[string]interface{}{"v": 300.0}},
		{"k": "a", "v": 4.0, "d": map[string]interface{}{"v": 400.0}},
		{"k": "b", "v": 5.0, "d": map[string]interface{}{"v": 500.0}},
	}
	out := c14run(t, "SELECT k, lag(d.v) OVER (PARTITION BY k) AS p FROM stream", rows)
	c14check(t, "lag(d.v)", c14col(out, "p"), []interface{}{nil, nil, 100.0, 300.0, 200.0})
	out = c14run(t, "SELECT k, acc_sum(d.v) OVER (PARTITION BY k) AS p FROM stream", rows)
	c14check(t, "acc_sum(d.v)", c14col(out, "p"), []interface{}{100.0, 200.0, 400.0, 800.0, 700.0})
}

// ---------------------------------------------------------------------------
// F3: OVER written after each call (standard SQL placement) silently truncates
// the SELECT item: everything after the first OVER(...) - operator, second call
// and the AS alias - is dropped, no error.
// ---------------------------------------------------------------------------
func TestC14_F3_OverAfterEachCallSilentlyTruncatesItem(t *testing.T) {
	rows := []c14row{
		{"k": "a", "v": 1.0}, {"k": "b", "v": 10.0}, {"k": "a", "v": 4.0},
		{"k": "a", "v": 9.0}, {"k": "b", "v": 20.0}, {"k": "a", "v": 3.0},
	}
	want := []interface{}{0.0, 0.0, 3.0, 8.0, 10.0, 8.0}
	// control: library dialect (single trailing OVER) gives the right answer
	out := c14run(t, "SELECT k, acc_max(v) - acc_min(v) OVER (PARTITION BY k) AS p FROM stream", rows)
	c14check(t, "control: acc_max(v) - acc_min(v) OVER (...)", c14col(out, "p"), want)
	// standard placement
	out = c14run(t, "SELECT k, acc_max(v) OVER (PARTITION BY k) - acc_min(v) OVER (PARTITION BY k) AS p FROM stream", rows)
	c14check(t, "acc_max(v) OVER (..) - acc_min(v) OVER (..) AS p", c14col(out, "p"), want)
	// same with a plain column on the right-hand side
	out = c14run(t, "SELECT k, lag(v) OVER (PARTITION BY k) - v AS p FROM stream", rows)
	c14check(t, "lag(v) OVER (..) - v AS p", c14col(out, "p"), []interface{}{nil, nil, -3.0, -5.0, -10.0, 6.0})
}

// ---------------------------------------------------------------------------
// F4: had_changed(..., *) wrapped in an expression: the wrapper is ignored and
// the raw bool is returned.
// ---------------------------------------------------------------------------
func TestC14_F4_HadChangedStarIgnoresWrapper(t *testing.T) {
	rows := []c14row{
		{"k": "a", "v": 1.0}, {"k": "b", "v": 1.0}, {"k": "a", "v": 1.0},
		{"k": "a", "v": 2.0}, {"k": "b", "v": 1.0},
	}
	want := []interface{}{1, 1, 0, 1, 0}
	// control: explicit column list goes through the wrapper
	out := c14run(t, "SELECT k, CASE WHEN had_changed(true, k, v) THEN 1 ELSE 0 END OVER (PARTITION BY k) AS p FROM stream", rows)
	c14check(t, "control: CASE WHEN had_changed(true, k, v)", c14col(out, "p"), want)
	out = c14run(t, "SELECT k, CASE WHEN had_changed(true, *) THEN 1 ELSE 0 END OVER (PARTITION BY k) AS p FROM stream", rows)
	c14check(t, "CASE WHEN had_changed(true, *)", c14col(out, "p"), want)
}

// ---------------------------------------------------------------------------
// F5: acc_* start/reset predicates written with SQL operators (=, AND, OR, <>)
// silently evaluate to false: accumulation never starts.
// ---------------------------------------------------------------------------
func TestC14_F5_AccStartResetSqlOperatorsNeverFire(t *testing.T) {
	rows := []c14row{
		{"k": "a", "v": 1.0, "s": "idle"},
		{"k": "b", "v": 10.0, "s": "start"},
		{"k": "a", "v": 2.0, "s": "start"},
		{"k": "a", "v": 3.0, "s": "run"},
		{"k": "b", "v": 20.0, "s": "run"},
		{"k": "a", "v": 4.0, "s": "end"},
		{"k": "a", "v": 5.0, "s": "run"},
	}
	want := []interface{}{0.0, 10.0, 2.0, 5.0, 30.0, 0.0, 0.0}
	out := c14run(t, "SELECT k, acc_sum(v, s == 'start', s == 'end') OVER (PARTITION BY k) AS p FROM stream", rows)
	c14check(t, "control: ==", c14col(out, "p"), want)
	for _, q := range []string{
		"SELECT k, acc_sum(v, s = 'start', s = 'end') OVER (PARTITION BY k) AS p FROM stream",
		"SELECT k, acc_sum(v, s == 'start' AND v > 0, s == 'end') OVER (PARTITION BY k) AS p FROM stream",
		"SELECT k, acc_sum(v, s == 'start' OR s == 'nope', s == 'end') OVER (PARTITION BY k) AS p FROM stream",
	} {
		out = c14run(t, q, rows)
		c14check(t, q, c14col(out, "p"), want)
	}
	// <> : start on the first non-idle row
	out = c14run(t, "SELECT k, acc_sum(v, s <> 'idle', s == 'end') OVER (PARTITION BY k) AS p FROM stream", rows)
	// (a restarts on its last row because s <> 'idle' holds again after the reset)
	c14check(t, "start = s <> 'idle'", c14col(out, "p"), []interface{}{0.0, 10.0, 2.0, 5.0, 30.0, 0.0, 5.0})
}

// ---------------------------------------------------------------------------
// F6: an OVER WHEN predicate that the expression compiler rejects (LIKE / IN /
// NOT / <>) is not reported by Execute; at the first row the whole analytic
// engine fails to initialise and EVERY analytic column of the query - also the
// unrelated, valid ones - silently disappears from the output.
// ---------------------------------------------------------------------------
func TestC14_F6_WhenCompileFailureSilentlyDropsAllAnalyticColumns(t *testing.T) {
	rows := []c14row{
		{"k": "a", "v": 1.0, "s": "x1"}, {"k": "b", "v": 10.0, "s": "x2"},
		{"k": "a", "v": 2.0, "s": "y"}, {"k": "a", "v": 3.0, "s": "x3"}, {"k": "b", "v": 20.0, "s": "x4"},
	}
	s := New()
	defer s.Stop()
	err := s.Execute("SELECT k, lag(v) OVER (PARTITION BY k) AS p, acc_sum(v) OVER (PARTITION BY k WHEN s LIKE 'x%') AS q FROM stream")
	if err != nil {
		return // an explicit error is acceptable behaviour
	}
	var p, q []interface{}
	for _, r := range rows {
		res, _ := s.EmitSync(r)
		p = append(p, c14col([]c14row{res}, "p")[0])
		q = append(q, c14col([]c14row{res}, "q")[0])
	}
	c14check(t, "p = lag(v) (valid field, no WHEN)", p, []interface{}{nil, nil, 1.0, 2.0, 10.0})
	c14check(t, "q = acc_sum(v) WHEN s LIKE 'x%'", q, []interface{}{1.0, 10.0, 1.0, 4.0, 30.0})
}

// ---------------------------------------------------------------------------
// F7: in WHERE, OVER (WHEN ... PARTITION BY ...) - an order the SELECT side
// accepts - is mis-split: the WHEN text swallows "PARTITION BY k".
// ---------------------------------------------------------------------------
func TestC14_F7_WhereOverWhenBeforePartitionBy(t *testing.T) {
	rows := []c14row{
		{"k": "a", "v": 1.0, "ok": true}, {"k": "b", "v": 10.0, "ok": true},
		{"k": "a", "v": 4.0, "ok": false}, {"k": "a", "v": 9.0, "ok": true},
		{"k": "b", "v": 20.0, "ok": true}, {"k": "a", "v": 9.0, "ok": true},
	}
	want := []interface{}{"<filtered>", "<filtered>", "<filtered>", 9.0, 20.0, 9.0}
	out := c14run(t, "SELECT k, v FROM stream WHERE lag(v) OVER (PARTITION BY k WHEN ok) > 0", rows)
	c14check(t, "control: PARTITION BY first", c14col(out, "v"), want)
	// the SELECT side handles WHEN-first:
	out = c14run(t, "SELECT k, v, lag(v) OVER (WHEN ok PARTITION BY k) AS p FROM stream", rows)
	c14check(t, "control: SELECT, WHEN first", c14col(out, "p"), []interface{}{nil, nil, nil, 1.0, 10.0, 9.0})
	s := New()
	defer s.Stop()
	if err := s.Execute("SELECT k, v FROM stream WHERE lag(v) OVER (WHEN ok PARTITION BY k) > 0"); err != nil {
		return // an explicit error is acceptable
	}
	var got []c14row
	for _, r := range rows {
		res, _ := s.EmitSync(r)
		got = append(got, res)
	}
	c14check(t, "WHERE lag(v) OVER (WHEN ok PARTITION BY k) > 0", c14col(got, "v"), want)
}

// ---------------------------------------------------------------------------
// F8: WHEN containing an analytic call (the form quoted in the parser's own
// comment: WHEN had_changed(true, status)) is always false.
// ---------------------------------------------------------------------------
func TestC14_F8_WhenWithAnalyticCallAlwaysFalse(t *testing.T) {
	rows := []c14row{
		{"k": "a", "v": 1.0, "s": "x"}, {"k": "a", "v": 2.0, "s": "x"},
		{"k": "a", "v": 3.0, "s": "y"}, {"k": "a", "v": 4.0, "s": "y"}, {"k": "a", "v": 5.0, "s": "z"},
	}
	s := New()
	defer s.Stop()
	if err := s.Execute("SELECT k, v, lag(v) OVER (PARTITION BY k WHEN had_changed(true, s)) AS p FROM stream"); err != nil {
		return // rejecting it would be acceptable
	}
	var got []c14row
	for _, r := range rows {
		res, _ := s.EmitSync(r)
		got = append(got, res)
	}
	// state advances on rows 1,3,5 (s changed); rows 2,4 reuse the last result.
	c14check(t, "lag(v) WHEN had_changed(true, s)", c14col(got, "p"), []interface{}{nil, nil, 1.0, 1.0, 3.0})
}

// ---------------------------------------------------------------------------
// F9: the analytic-call extraction ignores string literals: text that looks
// like a call, or an unbalanced ')' inside a literal, corrupts the field.
// ---------------------------------------------------------------------------
func TestC14_F9_StringLiteralsNotRespectedByCallExtraction(t *testing.T) {
	rows := []c14row{
		{"k": "a", "s": "x"}, {"k": "b", "s": "y"}, {"k": "a", "s": "z"}, {"k": "b", "s": "w"},
	}
	out := c14run(t, "SELECT k, concat('lag(x)=', lag(s, 1, '-')) OVER (PARTITION BY k) AS p FROM stream", rows)
	c14check(t, "concat('lag(x)=', lag(s,1,'-'))", c14col(out, "p"),
		[]interface{}{"lag(x)=-", "lag(x)=-", "lag(x)=x", "lag(x)=y"})
	out = c14run(t, "SELECT k, lag(s, 1, 'n/a)') OVER (PARTITION BY k) AS p FROM stream", rows)
	c14check(t, "lag(s, 1, 'n/a)')", c14col(out, "p"), []interface{}{"n/a)", "n/a)", "x", "y"})
}

// ---------------------------------------------------------------------------
// F10: acc_sum/avg/min/max ignore numeric Go types other than
// int/int32/int64/float64 (float32, uint*, int8/16), although acc_count counts them.
// ---------------------------------------------------------------------------
func TestC14_F10_AccIgnoresOtherNumericTypes(t *testing.T) {
	rows := []c14row{
		{"v": int(1)}, {"v": float32(1.5)}, {"v": uint8(4)}, {"v": int16(5)}, {"v": uint(7)},
	}
	out := c14run(t, "SELECT acc_sum(v) AS s, acc_max(v) AS mx FROM stream", rows)
	c14check(t, "acc_sum over int,float32,uint8,int16,uint", c14col(out, "s"), []interface{}{1.0, 2.5, 6.5, 11.5, 18.5})
	c14check(t, "acc_max over int,float32,uint8,int16,uint", c14col(out, "mx"), []interface{}{1.0, 1.5, 4.0, 5.0, 7.0})
}

// ---------------------------------------------------------------------------
// F11: the partition key is type-tagged: 1 (int) and 1.0 (float64) - equal in
// SQL and equal for had_changed/changed_col - are two different partitions.
// ---------------------------------------------------------------------------
func TestC14_F11_PartitionKeyNumericTypeSplitsPartition(t *testing.T) {
	rows := []c14row{
		{"g": 1, "v": 1.0}, {"g": 2, "v": 10.0}, {"g": 1.0, "v": 2.0}, {"g": int64(1), "v": 3.0},
	}
	out := c14run(t, "SELECT g, acc_sum(v) OVER (PARTITION BY g) AS p FROM stream", rows)
	c14check(t, "acc_sum PARTITION BY g (1, 2, 1.0, int64(1))", c14col(out, "p"), []interface{}{1.0, 10.0, 3.0, 6.0})
}

// ---------------------------------------------------------------------------
// F12: two un-aliased analytic items with the same call text but different OVER
// share the alias "lag(v)": one silently overwrites the other (the duplicate
// output column check does not see it).
// ---------------------------------------------------------------------------
func TestC14_F12_UnaliasedDuplicateCallsCollapse(t *testing.T) {
	rows := []c14row{
		{"k": "a", "s": "x", "v": 1.0}, {"k": "b", "s": "x", "v": 10.0},
		{"k": "a", "s": "y", "v": 2.0}, {"k": "b", "s": "x", "v": 20.0},
	}
	s := New()
	defer s.Stop()
	if err := s.Execute("SELECT k, lag(v) OVER (PARTITION BY k), lag(v) OVER (PARTITION BY s) FROM stream"); err != nil {
		return // rejecting the ambiguous column name is acceptable (that is what the D3 check is for)
	}
	for i, r := range rows {
		res, _ := s.EmitSync(r)
		n := 0
		for range res {
			n++
		}
		if n != 3 {
			t.Errorf("row %d: expected 3 output columns (k + two lag columns) or a parse-time error, got %d: %v", i, n, res)
		}
	}
}
