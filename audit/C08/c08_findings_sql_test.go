package streamsql

// Audit C08 - sliding event-time windows through the public API.
// Place at: c08_findings_sql_test.go (repo root, package streamsql)

import (
	"fmt"
	"strings"
	"sync"
	"testing"
	"time"
)

// c08Collect runs sql, emits rows (20ms apart so the trigger goroutine keeps up)
// and returns one line per delivered window: "ws..we:c" in delivery order (sync sink).
func c08Collect(t *testing.T, sql string, rows []map[string]any) string {
	t.Helper()
	s := New()
	defer s.Stop()
	if err := s.Execute(sql); err != nil {
		t.Fatalf("Execute: %v", err)
	}
	var mu sync.Mutex
	var out []string
	s.AddSyncSink(func(res []map[string]any) {
		mu.Lock()
		defer mu.Unlock()
		for _, r := range res {
			out = append(out, fmt.Sprintf("%v..%v:%v", r["ws"].(int64)/1e6, r["we"].(int64)/1e6, r["c"]))
		}
	})
	for _, r := range rows {
		s.Emit(r)
		time.Sleep(20 * time.Millisecond)
	}
	time.Sleep(600 * time.Millisecond)
	mu.Lock()
	defer mu.Unlock()
	return strings.Join(out, " ")
}

const c08Sel = `SELECT COUNT(*) AS c, window_start() AS ws, window_end() AS we FROM stream GROUP BY `

// F1 through SQL: out-of-order (within MAXOUTOFORDERNESS) event older than the first arrival.
func TestC08_F1_SQL_EarlierAcceptedEventAfterFirstArrival(t *testing.T) {
	got := c08Collect(t, c08Sel+`SlidingWindow('4s','2s') WITH (TIMESTAMP='ts', TIMEUNIT='ms', MAXOUTOFORDERNESS='5s')`,
		[]map[string]any{{"ts": int64(7000)}, {"ts": int64(3000)}, {"ts": int64(30000)}})
	want := "2000..6000:1 4000..8000:1 6000..10000:1"
	if got != want {
		t.Fatalf("windows (ms) ws..we:count\n want: %s\n  got: %s", want, got)
	}
}

// F5: TIMEUNIT='mi' (accepted by the parser as time.Minute) is converted as SECONDS by
// cast.ConvertIntToTime, so rows land 60x too early and nothing lines up with the windows.
func TestC08_F5_TimeUnitMinutesTreatedAsSeconds(t *testing.T) {
	got := c08Collect(t, c08Sel+`SlidingWindow('4m','2m') WITH (TIMESTAMP='ts', TIMEUNIT='mi')`,
		[]map[string]any{{"ts": 1}, {"ts": 3}, {"ts": 5}, {"ts": 7}, {"ts": 20}})
	// minutes 1,3,5,7 ; watermark = minute 20
	want := "0..240000:2 120000..360000:2 240000..480000:2 360000..600000:1"
	if got != want {
		t.Fatalf("windows (ms) ws..we:count\n want: %s\n  got: %s", want, got)
	}
}

// F6: a fractional epoch-seconds timestamp is truncated to a whole second before
// placement, so the row is reported in an interval that should not be emitted
// ([3.0,4.0) starts before the slide-aligned start 3.5 of the only early event) and is
// missing from [3.5,4.5). The same rows given as time.Time behave correctly.
func TestC08_F6_FractionalSecondsTruncated(t *testing.T) {
	sql := c08Sel + `SlidingWindow('1s','500ms') WITH (TIMESTAMP='ts', TIMEUNIT='ss')`
	got := c08Collect(t, sql, []map[string]any{{"ts": 3.9}, {"ts": 20.0}})
	ref := c08Collect(t, c08Sel+`SlidingWindow('1s','500ms') WITH (TIMESTAMP='ts')`,
		[]map[string]any{{"ts": time.UnixMilli(3900)}, {"ts": time.UnixMilli(20000)}})
	want := "3500..4500:1"
	if ref != want {
		t.Fatalf("reference run with time.Time: want %s got %s", want, ref)
	}
	if got != want {
		t.Fatalf("windows (ms) ws..we:count\n want: %s\n  got: %s", want, got)
	}
}
