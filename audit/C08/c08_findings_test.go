package window

// Audit C08 - sliding event-time windows. Each test fails on the unmodified checkout.
// Place at: window/c08_findings_test.go

import (
	"fmt"
	"sort"
	"strings"
	"testing"
	"time"

	"github.com/rulego/streamsql/types"
)

func c08fNew(t *testing.T, sizeMs, slideMs, mooMs int64) *SlidingWindow {
	t.Helper()
	sw, err := NewSlidingWindow(types.WindowConfig{
		Type:               TypeSliding,
		Params:             []any{time.Duration(sizeMs) * time.Millisecond, time.Duration(slideMs) * time.Millisecond},
		TsProp:             "ts",
		TimeUnit:           time.Millisecond,
		TimeCharacteristic: types.EventTime,
		MaxOutOfOrderness:  time.Duration(mooMs) * time.Millisecond,
		WatermarkInterval:  5 * time.Millisecond,
	})
	if err != nil {
		t.Fatal(err)
	}
	return sw
}

func c08fAdd(sw *SlidingWindow, ts int64) { sw.Add(map[string]any{"ts": ts}) }

// c08fFire runs the trigger step with the current watermark (what the trigger
// goroutine does when it receives the watermark), making the interleaving explicit.
func c08fFire(sw *SlidingWindow) { sw.checkAndTriggerWindows(sw.watermark.GetCurrentWatermark()) }

func c08fDrain(sw *SlidingWindow) string {
	var sb strings.Builder
	for {
		select {
		case b := <-sw.OutputChan():
			var ts []int64
			for _, r := range b {
				ts = append(ts, r.Timestamp.UnixMilli())
			}
			sort.Slice(ts, func(i, j int) bool { return ts[i] < ts[j] })
			sb.WriteString(fmt.Sprintf("[%d,%d)%v ", b[0].Slot.Start.UnixMilli(), b[0].Slot.End.UnixMilli(), ts))
		default:
			return strings.TrimSpace(sb.String())
		}
	}
}

// F1: the first ARRIVED event pins the first slot; an accepted (not late) event with
// an earlier timestamp arriving afterwards never gets a window, and the windows
// between its aligned start and the first slot are never emitted.
func TestC08_F1_EarlierAcceptedEventAfterFirstArrival(t *testing.T) {
	sw := c08fNew(t, 4000, 2000, 5000) // size 4s, slide 2s, MAXOUTOFORDERNESS 5s
	defer sw.Stop()
	c08fAdd(sw, 7000)
	c08fAdd(sw, 3000) // watermark = 2000, so 3000 is NOT late -> accepted
	if sw.watermark.IsEventTimeLate(time.UnixMilli(3000)) {
		t.Fatal("precondition: 3000 must not be late")
	}
	c08fFire(sw)
	c08fAdd(sw, 30000) // watermark 25000
	c08fFire(sw)
	got := c08fDrain(sw)
	want := "[2000,6000)[3000] [4000,8000)[7000] [6000,10000)[7000]"
	if got != want {
		t.Fatalf("emitted windows\n want: %s\n  got: %s", want, got)
	}
}

// F1 variant: a single far-future first event (ignored for the watermark by the
// maxFutureSlack guard, but still used to pin the first slot) makes every later
// real event invisible for good.
func TestC08_F1b_FarFutureFirstEventPinsFirstSlot(t *testing.T) {
	sw := c08fNew(t, 4000, 2000, 0)
	defer sw.Stop()
	now := time.Now().UnixMilli()
	base := (now / 2000) * 2000
	c08fAdd(sw, now+48*3600*1000) // bogus, > now+24h
	c08fAdd(sw, base+1000)
	c08fAdd(sw, base+3000)
	c08fAdd(sw, base+20000)
	c08fFire(sw)
	got := c08fDrain(sw)
	want := fmt.Sprintf("[%d,%d)[%d %d] [%d,%d)[%d]", base, base+4000, base+1000, base+3000, base+2000, base+6000, base+3000)
	if got != want {
		t.Fatalf("emitted windows\n want: %s\n  got: %s", want, got)
	}
}

// F2: alignWindowStart truncates toward zero, so for a pre-epoch timestamp the
// "aligned start" lies AFTER the event and the event is in no emitted window.
func TestC08_F2_PreEpochTimestampAlignment(t *testing.T) {
	if s := alignWindowStart(time.UnixMilli(-500), 2*time.Second).UnixMilli(); s != -2000 {
		t.Errorf("alignWindowStart(-500ms, 2s) = %d, want -2000 (must be <= the timestamp)", s)
	}
	sw := c08fNew(t, 4000, 2000, 0)
	defer sw.Stop()
	c08fAdd(sw, -500)
	c08fAdd(sw, 1000)
	c08fAdd(sw, 20000)
	c08fFire(sw)
	got := c08fDrain(sw)
	want := "[-2000,2000)[-500 1000] [0,4000)[1000]"
	if got != want {
		t.Fatalf("emitted windows\n want: %s\n  got: %s", want, got)
	}
}

// F3: whether a slightly-late event is accepted depends on whether the trigger
// goroutine already processed the previous watermark: Add() tests the event only
// against sw.currentSlot, which is stale until the trigger step runs. The event
// 4500 lies in [4000,6000), which has not fired (watermark 5000 < 6000).
func TestC08_F3_LateEventDroppedBecauseCurrentSlotIsStale(t *testing.T) {
	run := func(triggerBetween bool) string {
		sw := c08fNew(t, 2000, 1000, 0)
		defer sw.Stop()
		c08fAdd(sw, 1000)
		c08fAdd(sw, 5000)
		if triggerBetween {
			c08fFire(sw)
		}
		c08fAdd(sw, 4500)
		c08fAdd(sw, 20000)
		c08fFire(sw)
		return c08fDrain(sw)
	}
	a, b := run(true), run(false)
	want := "[1000,3000)[1000] [4000,6000)[4500 5000] [5000,7000)[5000]"
	if a != want || b != want {
		t.Fatalf("same rows, same order, different ingest/trigger interleaving:\n want            : %s\n trigger between : %s\n trigger deferred: %s", want, a, b)
	}
}

// F4: the trigger step walks every empty slide-slot of an event-time gap one at a
// time while holding sw.mu; one stray old timestamp (ts=0) followed by current
// timestamps stalls delivery (and Add/Stop) for hours.
func TestC08_F4_LongGapStallsDelivery(t *testing.T) {
	sw := c08fNew(t, 2000, 1000, 0)
	sw.Start()
	// no Stop(): it would block on sw.mu held by the busy trigger loop
	now := (time.Now().UnixMilli() / 1000) * 1000
	c08fAdd(sw, 0)
	c08fAdd(sw, now+100)
	c08fAdd(sw, now+200)
	c08fAdd(sw, now+10000) // watermark passes [now, now+2000)
	deadline := time.After(5 * time.Second)
	seen := 0
	for seen < 2 {
		select {
		case b := <-sw.OutputChan():
			seen++
			t.Logf("window [%d,%d) rows=%d", b[0].Slot.Start.UnixMilli(), b[0].Slot.End.UnixMilli(), len(b))
		case <-deadline:
			t.Fatalf("only %d window(s) delivered within 5s; window [%d,%d) with 2 rows is complete (watermark=%d) but not delivered", seen, now-1000, now+1000, now+10000)
		}
	}
}
