package streamsql

// Audit tests for property C12 (predicate fast paths / predicate decisions).
// Place this file in the repository root (package streamsql).
// Every test function below FAILS on the unmodified checkout.

import (
	"fmt"
	"sort"
	"strings"
	"sync"
	"testing"
	"time"
)

// ---------- helpers ----------

// c12Where returns "true"/"false" for accept/reject of row under WHERE pred, or "EXECERR".
func c12Where(pred string, row map[string]any) string {
	s := New()
	defer s.Stop()
	if err := s.Execute("SELECT * FROM stream WHERE " + pred); err != nil {
		return "EXECERR"
	}
	r, err := s.EmitSync(row)
	if err != nil {
		return "ERR:" + err.Error()
	}
	return fmt.Sprint(r != nil)
}

// c12Having runs SELECT k, <sel> ... GROUP BY k, CountingWindow(1) HAVING <having>, feeding one row
// per value (k = k00, k01, ... ; x = value) and returns the sorted keys of the groups that passed.
func c12Having(t *testing.T, sel, having string, vals []any) string {
	t.Helper()
	s := New()
	defer s.Stop()
	q := "SELECT k, " + sel + " FROM stream GROUP BY k, CountingWindow(1) HAVING " + having
	if err := s.Execute(q); err != nil {
		return "EXECERR: " + err.Error()
	}
	var mu sync.Mutex
	got := map[string]bool{}
	s.AddSink(func(rs []map[string]any) {
		mu.Lock()
		defer mu.Unlock()
		for _, r := range rs {
			got[fmt.Sprint(r["k"])] = true
		}
	})
	for i, v := range vals {
		s.Emit(map[string]any{"k": fmt.Sprintf("k%02d", i), "x": v})
	}
	time.Sleep(500 * time.Millisecond)
	mu.Lock()
	defer mu.Unlock()
	var ks []string
	for k := range got {
		ks = append(ks, k)
	}
	sort.Strings(ks)
	return strings.Join(ks, ",")
}

// c12Trigger reports whether a GLOBAL WINDOW with the given TRIGGER WHEN fires for the single row.
func c12Trigger(trig string, row map[string]any) string {
	s := New()
	defer s.Stop()
	if err := s.Execute("SELECT count(*) AS c FROM stream GROUP BY GLOBAL WINDOW TRIGGER WHEN " + trig); err != nil {
		return "EXECERR"
	}
	var mu sync.Mutex
	n := 0
	s.AddSink(func(rs []map[string]any) { mu.Lock(); n += len(rs); mu.Unlock() })
	s.Emit(row)
	time.Sleep(300 * time.Millisecond)
	mu.Lock()
	defer mu.Unlock()
	if n > 0 {
		return "fired"
	}
	return "nofire"
}

// c12OverWhen: the row is emitted twice with v=100; lag(v) on the second emission is 100
// iff the OVER(WHEN ...) predicate accepted the first emission.
func c12OverWhen(tmpl, when string, row map[string]any) string {
	s := New()
	defer s.Stop()
	if err := s.Execute(fmt.Sprintf(tmpl, when)); err != nil {
		return "EXECERR"
	}
	r := map[string]any{"v": 100}
	for k, v := range row {
		r[k] = v
	}
	if _, err := s.EmitSync(r); err != nil {
		return "ERR"
	}
	out, err := s.EmitSync(r)
	if err != nil {
		return "ERR"
	}
	if out != nil && fmt.Sprint(out["prev"]) == "100" {
		return "accepted"
	}
	return "rejected"
}

// ---------- Finding 1: HAVING predicate that fails to compile accepts every group ----------

func TestC12_F1_HavingFailsOpen(t *testing.T) {
	vals := []any{1, 5, 7, "abc"}
	// (a) SQL inequality <> : groups with lv = 5 must be rejected
	if got := c12Having(t, "last_value(x) AS lv", "lv <> 5", vals); got != "k00,k02,k03" {
		t.Errorf("HAVING lv <> 5: passed groups = %q, want k00,k02,k03 (same as lv != 5); k01 has lv=5", got)
	}
	// (b) alias spelled like a built-in function: only lv=7 passes count > 5
	if got := c12Having(t, "last_value(x) AS count", "count > 5", vals); got != "k02" {
		t.Errorf("HAVING count > 5 (alias count): passed groups = %q, want k02", got)
	}
	// (c) back-quoted alias (supported spelling in WHERE)
	if got := c12Having(t, "last_value(x) AS lv", "`lv` > 5", vals); got != "k02" {
		t.Errorf("HAVING `lv` > 5: passed groups = %q, want k02", got)
	}
}

// ---------- Finding 2: aggregate/analytic call rewriting reaches into quoted literals ----------

func TestC12_F2_CallRewriteInsideLiteral_Where(t *testing.T) {
	if got := c12Where("x = 'lag(v)'", map[string]any{"x": "lag(v)"}); got != "true" {
		t.Errorf("WHERE x = 'lag(v)' row x=\"lag(v)\": got %s, want true", got)
	}
	if got := c12Where("x = 'lag(v)'", map[string]any{"x": "__analytic_0__"}); got != "false" {
		t.Errorf("WHERE x = 'lag(v)' row x=\"__analytic_0__\": got %s, want false", got)
	}
}

func TestC12_F2_CallRewriteInsideLiteral_Having(t *testing.T) {
	vals := []any{"sum(x)", "__having_0__", "abc"}
	if got := c12Having(t, "last_value(x) AS lv", "lv = 'sum(x)'", vals); got != "k00" {
		t.Errorf("HAVING lv = 'sum(x)': passed groups = %q, want k00 (the group whose lv is \"sum(x)\")", got)
	}
}

func TestC12_F2_CallRewriteInsideLiteral_Trigger(t *testing.T) {
	if got := c12Trigger("last_value(x) = 'count(*)'", map[string]any{"x": "count(*)"}); got != "fired" {
		t.Errorf("TRIGGER WHEN last_value(x) = 'count(*)' row x=\"count(*)\": %s, want fired", got)
	}
	if got := c12Trigger("last_value(x) = 'count(*)'", map[string]any{"x": "__trig_1__"}); got != "nofire" {
		t.Errorf("TRIGGER WHEN last_value(x) = 'count(*)' row x=\"__trig_1__\": %s, want nofire", got)
	}
}

// ---------- Finding 3: back-quote stripping also edits string literals ----------

func TestC12_F3_BacktickInsideLiteral(t *testing.T) {
	if got := c12Where("x = 'a`b`c'", map[string]any{"x": "a`b`c"}); got != "true" {
		t.Errorf("WHERE x = 'a`b`c' row x=\"a`b`c\": got %s, want true", got)
	}
	if got := c12Where("x = 'a`b`c'", map[string]any{"x": "abc"}); got != "false" {
		t.Errorf("WHERE x = 'a`b`c' row x=\"abc\": got %s, want false", got)
	}
}

// ---------- Finding 4: LIKE rewriting matches across literal boundaries ----------

func TestC12_F4_LikeRewriteAcrossLiterals(t *testing.T) {
	p := "x = 'y LIKE ' AND z = 'q'"
	if got := c12Where(p, map[string]any{"x": "y LIKE ", "z": "q"}); got != "true" {
		t.Errorf("WHERE %s row x=\"y LIKE \", z=\"q\": got %s, want true", p, got)
	}
	if got := c12Where(p, map[string]any{"x": "y == ", "z": "q"}); got != "false" {
		t.Errorf("WHERE %s row x=\"y == \", z=\"q\": got %s, want false", p, got)
	}
}

// ---------- Finding 5: column named nil: shortcut reads the column, general engine the constant ----------

func TestC12_F5_NilColumnFastVsGeneral(t *testing.T) {
	row := map[string]any{"nil": 5}
	plain := c12Where("nil = 5", row)
	paren := c12Where("(nil = 5)", row)
	if plain != paren {
		t.Errorf("WHERE nil = 5 -> %s but WHERE (nil = 5) -> %s for row %v", plain, paren, row)
	}
	plain = c12Where("nil != 5", row)
	paren = c12Where("(nil != 5)", row)
	if plain != paren {
		t.Errorf("WHERE nil != 5 -> %s but WHERE (nil != 5) -> %s for row %v", plain, paren, row)
	}
}

// ---------- Finding 6: unquoted reserved-word column silently drops the whole WHERE ----------

func TestC12_F6_ReservedWordColumnDropsWhere(t *testing.T) {
	for _, col := range []string{"order", "group", "with", "global"} {
		got := c12Where(col+" > 5", map[string]any{col: 1})
		if got != "false" && got != "EXECERR" {
			t.Errorf("WHERE %s > 5 with %s=1: row accepted (%s); want rejected (or a parse error). WHERE (%s > 5) -> %s",
				col, col, got, col, c12Where("("+col+" > 5)", map[string]any{col: 1}))
		}
	}
}

// ---------- Finding 7: OVER (WHEN ...) with back-quoted column / parenthesis in literal ----------

func TestC12_F7_OverWhenBacktickColumn(t *testing.T) {
	tm := "SELECT lag(v) OVER (WHEN %s) AS prev FROM stream"
	if got := c12OverWhen(tm, "x > 5", map[string]any{"x": 7}); got != "accepted" {
		t.Fatalf("control failed: %s", got)
	}
	if got := c12Where("`x` > 5", map[string]any{"x": 7}); got != "true" {
		t.Fatalf("control failed: WHERE `x` > 5 -> %s", got)
	}
	if got := c12OverWhen(tm, "`x` > 5", map[string]any{"x": 7}); got != "accepted" {
		t.Errorf("OVER (WHEN `x` > 5) row x=7: %s, want accepted (WHERE `x` > 5 accepts it)", got)
	}
}

func TestC12_F7_OverWhenParenInLiteral(t *testing.T) {
	tm := "SELECT v AS prev FROM stream WHERE lag(v) OVER (WHEN %s) == 100"
	if got := c12OverWhen(tm, "x = 'ab'", map[string]any{"x": "ab"}); got != "accepted" {
		t.Fatalf("control failed: %s", got)
	}
	if got := c12OverWhen(tm, "x = 'a(b'", map[string]any{"x": "a(b"}); got != "accepted" {
		t.Errorf("WHERE lag(v) OVER (WHEN x = 'a(b') == 100, row x=\"a(b\": %s, want accepted", got)
	}
}
