package condition

// Place in condition/ (package condition). Fails on the unmodified checkout.

import "testing"

// A column named nil: the compiled shortcut reads row["nil"], the general engine evaluates the
// constant nil, so `nil == 5` and its parenthesised equivalent disagree.
func TestC12_NilIdentifierShortcutDisagreesWithGeneral(t *testing.T) {
	for _, e := range []string{"nil == 5", "nil != 5", "nil == 'a'"} {
		fast, err := NewExprCondition(e)
		if err != nil {
			t.Fatal(err)
		}
		gen, err := NewExprCondition("(" + e + ")")
		if err != nil {
			t.Fatal(err)
		}
		for _, env := range []map[string]any{{"nil": 5, "y": 5}, {"nil": "a", "y": 5}} {
			if a, b := fast.Evaluate(env), gen.Evaluate(env); a != b {
				t.Errorf("%q on %v: shortcut form=%v parenthesised form=%v", e, env, a, b)
			}
		}
	}
}
