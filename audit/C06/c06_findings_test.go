package streamsql

// Audit of property C06 (scalar expressions follow SQL arithmetic / comparison /
// logic / CASE / NULL rules). One test function per finding; every test FAILS on
// the unmodified checkout. Place this file in the repository root (package streamsql).

import (
	"fmt"
	"math"
	"reflect"
	"testing"
)

type c06row = map[string]interface{}

const c06Filtered = "<row filtered out>"

// c06Eval runs sql on a fresh engine, feeds the rows in order through EmitSync and
// returns the result of the LAST row: the value of column "r" (or the whole map when
// there is no "r"), c06Filtered when WHERE dropped the row, or an "ERR/PANIC" string.
func c06Eval(sql string, rows ...c06row) (out interface{}) {
	defer func() {
		if p := recover(); p != nil {
			out = fmt.Sprintf("PANIC: %v", p)
		}
	}()
	s := New()
	if err := s.Execute(sql); err != nil {
		return "EXECUTE ERROR: " + err.Error()
	}
	defer s.Stop()
	var res map[string]interface{}
	var err error
	for _, r := range rows {
		res, err = s.EmitSync(r)
	}
	if err != nil {
		return "EMIT ERROR: " + err.Error()
	}
	if res == nil {
		return c06Filtered
	}
	if v, ok := res["r"]; ok {
		return v
	}
	return res
}

func c06Same(got, want interface{}) bool {
	if want == nil || got == nil {
		return want == nil && got == nil
	}
	gf, gok := c06Num(got)
	wf, wok := c06Num(want)
	if gok && wok {
		return gf == wf || math.Abs(gf-wf) <= 1e-9*math.Abs(wf)
	}
	return reflect.DeepEqual(got, want)
}

func c06Num(v interface{}) (float64, bool) {
	switch x := v.(type) {
	case int:
		return float64(x), true
	case int64:
		return float64(x), true
	case float64:
		return x, true
	case float32:
		return float64(x), true
	}
	return 0, false
}

type c06case struct {
	sql  string
	rows []c06row
	want interface{}
}

func c06Check(t *testing.T, cases []c06case) {
	t.Helper()
	for _, c := range cases {
		got := c06Eval(c.sql, c.rows...)
		if !c06Same(got, c.want) {
			t.Errorf("\n  sql : %s\n  rows: %v\n  want: %#v\n  got : %#v", c.sql, c.rows, c.want, got)
		}
	}
}

// F01: in WHERE, a NULL/absent operand in one disjunct makes the whole predicate false,
// and the outcome depends on operand order (TRUE OR NULL passes, NULL OR TRUE is dropped).
func TestC06_F01_WhereNullComparisonAbortsWholePredicate(t *testing.T) {
	row := c06row{"a": 10, "n": nil, "s": "hello"}
	c06Check(t, []c06case{
		{"SELECT a AS r FROM stream WHERE a > 1 OR n > 1", []c06row{row}, 10}, // control (passes today)
		{"SELECT a AS r FROM stream WHERE n > 1 OR a > 1", []c06row{row}, 10},
		{"SELECT a AS r FROM stream WHERE missing > 1 OR a > 1", []c06row{row}, 10},
		{"SELECT a AS r FROM stream WHERE n > 1 OR s = 'hello'", []c06row{row}, 10},
		{"SELECT a AS r FROM stream WHERE a + n > 1 OR a > 1", []c06row{row}, 10},
	})
}

// F02: in WHERE, != / = with a NULL or absent operand evaluates to TRUE.
func TestC06_F02_WhereEqualityWithNullIsTrue(t *testing.T) {
	row := c06row{"a": 10, "n": nil}
	c06Check(t, []c06case{
		{"SELECT a AS r FROM stream WHERE n != 5", []c06row{row}, c06Filtered},
		{"SELECT a AS r FROM stream WHERE missing != 5", []c06row{row}, c06Filtered},
		{"SELECT a AS r FROM stream WHERE n = n", []c06row{row}, c06Filtered},
		{"SELECT a AS r FROM stream WHERE n != 'x'", []c06row{row}, c06Filtered},
	})
}

// F03: a SELECT item that contains any parenthesis is handed only to expr-lang, which
// does not understand SQL '=', AND, OR, CASE; the item silently becomes NULL.
// The last case is the example from docs/FUNCTION_INTEGRATION.md.
func TestC06_F03_SelectItemWithParenthesesLosesSQLSyntax(t *testing.T) {
	row := c06row{"a": 10, "b": 3.0, "c": 2, "neg": -5, "s": "hello", "temperature": 27.0}
	c06Check(t, []c06case{
		{"SELECT abs(neg) = 5 AS r FROM stream", []c06row{row}, true},
		{"SELECT upper(s) = 'HELLO' AS r FROM stream", []c06row{row}, true},
		{"SELECT abs(neg) > 3 AND a > 5 AS r FROM stream", []c06row{row}, true},
		{"SELECT (a > 50 OR b > 1) AND c > 1 AS r FROM stream", []c06row{row}, true},
		{"SELECT CASE WHEN (a > 5) THEN 1 ELSE 0 END AS r FROM stream", []c06row{row}, 1},
		{"SELECT CASE WHEN a > 5 THEN (a + 1) ELSE 0 END AS r FROM stream", []c06row{row}, 11},
		{"SELECT CASE WHEN a > 5 THEN abs(neg) ELSE 0 END AS r FROM stream", []c06row{row}, 5},
		{"SELECT CASE WHEN a > 5 THEN upper(s) ELSE 'x' END AS r FROM stream", []c06row{row}, "HELLO"},
		{"SELECT CASE WHEN ABS(temperature - 25) < 5 THEN 'NORMAL' WHEN temperature * 1.8 + 32 > 100 THEN 'HOT_F' WHEN ROUND(temperature) = 20 THEN 'EXACT_20' ELSE 'OTHER' END AS r FROM stream", []c06row{row}, "NORMAL"},
	})
}

// F04: NOT is not implemented by the expression parser used for SELECT/CASE; the item
// silently becomes NULL (docs list NOT as supported inside CASE).
func TestC06_F04_NotOperatorYieldsNull(t *testing.T) {
	row := c06row{"a": 10, "b": 3.0, "t": true}
	c06Check(t, []c06case{
		{"SELECT CASE WHEN NOT a < 10 THEN 1 ELSE 0 END AS r FROM stream", []c06row{row}, 1},
		{"SELECT CASE WHEN a > 5 AND NOT b > 5 THEN 1 ELSE 0 END AS r FROM stream", []c06row{row}, 1},
		{"SELECT NOT a > 5 AS r FROM stream", []c06row{row}, false},
		{"SELECT a > 5 AND NOT b > 5 AS r FROM stream", []c06row{row}, true},
	})
}

// F05: CASE is only recognised as the very first token of an expression; as an operand
// or nested inside another CASE it silently yields NULL.
func TestC06_F05_CaseAsOperandOrNested(t *testing.T) {
	row := c06row{"a": 10, "b": 3.0}
	c06Check(t, []c06case{
		{"SELECT 1 + CASE WHEN a > 5 THEN 1 ELSE 2 END AS r FROM stream", []c06row{row}, 2},
		{"SELECT CASE WHEN a > 5 THEN 1 ELSE 2 END + 1 AS r FROM stream", []c06row{row}, 2},
		{"SELECT CASE WHEN a > 5 THEN CASE WHEN b > 5 THEN 1 ELSE 2 END ELSE 3 END AS r FROM stream", []c06row{row}, 2},
	})
}

// F06: an ABSENT column inside a comparison raises "field not found" in the SQL evaluator
// (a NULL-valued column does not); CASE then yields NULL instead of ELSE, and a bare
// comparison falls through to expr-lang where nil != 5 is true. Also shows the value
// depends on the row shape only, not on rows seen before.
func TestC06_F06_AbsentColumnInComparison(t *testing.T) {
	withB := c06row{"a": 1, "b": 2}
	noB := c06row{"a": 5}
	nullB := c06row{"a": 5, "b": nil}
	c06Check(t, []c06case{
		{"SELECT CASE WHEN b > 1 THEN 'y' ELSE 'n' END AS r FROM stream", []c06row{nullB}, "n"}, // control
		{"SELECT CASE WHEN b > 1 THEN 'y' ELSE 'n' END AS r FROM stream", []c06row{noB}, "n"},
		{"SELECT CASE WHEN b > 1 THEN 'y' ELSE 'n' END AS r FROM stream", []c06row{withB, noB}, "n"},
		{"SELECT CASE WHEN b != 10 THEN 1 ELSE 0 END AS r FROM stream", []c06row{noB}, 0},
		{"SELECT b != 5 AS r FROM stream", []c06row{nullB}, false}, // control
	})
	if got := c06Eval("SELECT b != 5 AS r FROM stream", noB); got == true {
		t.Errorf("SELECT b != 5 with b absent: comparison with a missing operand must not be true, got %#v", got)
	}
}

// F07: arithmetic whose result is NULL is not flagged as NULL, so IS NULL / IS NOT NULL
// on it give the wrong answer.
func TestC06_F07_NullArithmeticIsNull(t *testing.T) {
	row := c06row{"a": 10, "n": nil}
	c06Check(t, []c06case{
		{"SELECT CASE WHEN n IS NULL THEN 1 ELSE 0 END AS r FROM stream", []c06row{row}, 1}, // control
		{"SELECT CASE WHEN a + n IS NULL THEN 1 ELSE 0 END AS r FROM stream", []c06row{row}, 1},
		{"SELECT CASE WHEN a + n IS NOT NULL THEN 1 ELSE 0 END AS r FROM stream", []c06row{row}, 0},
		{"SELECT CASE WHEN a * missing IS NULL THEN 1 ELSE 0 END AS r FROM stream", []c06row{row}, 1},
		{"SELECT a + n IS NULL AS r FROM stream", []c06row{row}, true},
	})
}

// F08: text operands that look like numbers are compared as numbers ("10" > "9",
// "10" = "10.0", "nan" <> "nan") in the SQL evaluator; WHERE (expr-lang) compares them as text.
func TestC06_F08_TextComparedNumerically(t *testing.T) {
	row := c06row{"s10": "10", "s9": "9", "nan": "nan"}
	c06Check(t, []c06case{
		{"SELECT CASE WHEN nan = 'nan' THEN 1 ELSE 0 END AS r FROM stream", []c06row{row}, 1},
		{"SELECT nan = 'nan' AS r FROM stream", []c06row{row}, true},
		{"SELECT CASE nan WHEN 'nan' THEN 1 ELSE 0 END AS r FROM stream", []c06row{row}, 1},
		{"SELECT CASE WHEN s10 = '10.0' THEN 1 ELSE 0 END AS r FROM stream", []c06row{row}, 0},
		{"SELECT CASE s10 WHEN '1e1' THEN 1 ELSE 0 END AS r FROM stream", []c06row{row}, 0},
		{"SELECT CASE WHEN s10 > s9 THEN 1 ELSE 0 END AS r FROM stream", []c06row{row}, 0},
		// same predicates in WHERE use text semantics (controls: these pass today)
		{"SELECT nan AS r FROM stream WHERE nan = 'nan'", []c06row{row}, "nan"},
	})
	// evaluator disagreement on one and the same comparison
	sel := c06Eval("SELECT s10 > s9 AS r FROM stream", row)
	whr := c06Eval("SELECT s10 AS r FROM stream WHERE s10 > s9", row)
	if (sel == true) != (whr != c06Filtered) {
		t.Errorf("s10 > s9 with s10='10', s9='9': SELECT says %#v but WHERE says %#v", sel, whr)
	}
}

// F09: simple CASE treats NULL = NULL as a match.
func TestC06_F09_SimpleCaseNullMatchesNull(t *testing.T) {
	row := c06row{"a": 10, "n": nil}
	c06Check(t, []c06case{
		{"SELECT CASE WHEN n = n THEN 'a' ELSE 'e' END AS r FROM stream", []c06row{row}, "e"}, // control: searched form is right
		{"SELECT CASE n WHEN n THEN 'a' ELSE 'e' END AS r FROM stream", []c06row{row}, "e"},
		{"SELECT CASE n WHEN missing THEN 'a' ELSE 'e' END AS r FROM stream", []c06row{row}, "e"},
	})
}

// F10: when an expression is evaluated by expr-lang (every WHERE, and any SELECT item with a
// function call) int operands use wrapping int64 arithmetic instead of float64 arithmetic.
func TestC06_F10_IntArithmeticWrapsInExprLang(t *testing.T) {
	row := c06row{"a": 3000000000, "z": 0}
	c06Check(t, []c06case{
		{"SELECT a * a * 2 AS r FROM stream", []c06row{row}, 1.8e19}, // control: SQL evaluator, float64
		{"SELECT a * a * 2 + abs(z) AS r FROM stream", []c06row{row}, 1.8e19},
		{"SELECT a AS r FROM stream WHERE a * a * 2 > 0", []c06row{row}, 3000000000},
		{"SELECT a AS r FROM stream WHERE a * a > 0", []c06row{{"a": 4000000000}}, 4000000000},
	})
}

// F11: the IS NULL -> "== nil" text rewrite is applied inside string literals.
func TestC06_F11_IsNullRewriteInsideStringLiteral(t *testing.T) {
	row := c06row{"s": "x IS NULL"}
	c06Check(t, []c06case{
		{"SELECT s AS r FROM stream WHERE s = 'x IS NULL'", []c06row{row}, "x IS NULL"},
		{"SELECT upper('x IS NULL') AS r FROM stream", []c06row{row}, "X IS NULL"},
	})
}

// F12: for functions routed to the hand-written argument parser (all functions with >= 2
// required args, or optional args, e.g. if_null, startswith, round(x, n)) an absent column is
// passed as ITS OWN NAME (a string) instead of NULL.
func TestC06_F12_AbsentColumnArgumentBecomesItsName(t *testing.T) {
	row := c06row{"a": 10, "s": "hello"}
	c06Check(t, []c06case{
		{"SELECT coalesce(missing, 5) AS r FROM stream", []c06row{row}, 5}, // control: expr-lang path
		{"SELECT if_null(missing, 5) AS r FROM stream", []c06row{row}, 5},
		{"SELECT if_null(missing, 'd') AS r FROM stream", []c06row{row}, "d"},
	})
	if got := c06Eval("SELECT startswith(missing, 'mis') AS r FROM stream", row); got == true {
		t.Errorf("startswith(<absent column>, 'mis') returned true: the column NAME was used as the value")
	}
}

// F13: NULL arithmetic inside an argument of such a function falls back to a "string
// concatenation" evaluator that renders NULL as "" - a + NULL becomes the text "10".
func TestC06_F13_NullArithmeticArgumentBecomesConcatenation(t *testing.T) {
	row := c06row{"a": 10, "f": 2.567, "n": nil}
	c06Check(t, []c06case{
		{"SELECT round(f + a, 2) AS r FROM stream", []c06row{row}, 12.57}, // control
		{"SELECT round(a + n, 2) AS r FROM stream", []c06row{row}, nil},
		{"SELECT round(f + n, 2) AS r FROM stream", []c06row{row}, nil},
		{"SELECT mod(a + n, 3) AS r FROM stream", []c06row{row}, nil},
		{"SELECT if_null(a + n, 5) AS r FROM stream", []c06row{row}, 5},
	})
}

// F14: in expr-lang, arithmetic with a NULL operand is a runtime error that discards the
// whole item, so NULL-handling functions around it never see the NULL.
func TestC06_F14_NullArithmeticInsideNullHandlingFunction(t *testing.T) {
	row := c06row{"a": 10, "n": nil}
	c06Check(t, []c06case{
		{"SELECT coalesce(n, 5) AS r FROM stream", []c06row{row}, 5}, // control
		{"SELECT coalesce(a + n, 5) AS r FROM stream", []c06row{row}, 5},
		{"SELECT coalesce(n + 1, 5) AS r FROM stream", []c06row{row}, 5},
		{"SELECT is_null(a + n) AS r FROM stream", []c06row{row}, true},
	})
}

// F15: equality inside null_if / array_contains / array_position / array_remove is
// reflect.DeepEqual, and numeric literals reach them as float64: an int column never
// equals a numeric literal.
func TestC06_F15_IntColumnNeverEqualsNumericLiteralInFunctions(t *testing.T) {
	row := c06row{"a": 10, "b": 3.0, "arr": []interface{}{1, 2, 2, 3}}
	c06Check(t, []c06case{
		{"SELECT null_if(b, 3) AS r FROM stream", []c06row{row}, nil}, // control: float column
		{"SELECT null_if(a, 10) AS r FROM stream", []c06row{row}, nil},
		{"SELECT array_contains(arr, 2) AS r FROM stream", []c06row{row}, true},
		{"SELECT array_remove(arr, 2) AS r FROM stream", []c06row{row}, []interface{}{1, 3}},
	})
	if got := c06Eval("SELECT array_position(arr, 2) AS r FROM stream", row); c06Same(got, 0) || got == nil {
		t.Errorf("array_position([1,2,2,3], 2) = %#v: element 2 reported as not found", got)
	}
}

// F16: a SELECT item is only treated as an expression when its text contains an operator
// character or AND/OR; a numeric literal, IS NULL or LIKE item is looked up as a column name.
func TestC06_F16_SelectItemWithoutOperatorCharIsColumnLookup(t *testing.T) {
	row := c06row{"a": 10, "s": "hello", "n": nil}
	c06Check(t, []c06case{
		{"SELECT -5 AS r FROM stream", []c06row{row}, -5}, // control
		{"SELECT 5 AS r FROM stream", []c06row{row}, 5},
		{"SELECT 5.5 AS r FROM stream", []c06row{row}, 5.5},
		{"SELECT n IS NULL AS r FROM stream", []c06row{row}, true},
		{"SELECT s IS NOT NULL AS r FROM stream", []c06row{row}, true},
		{"SELECT s LIKE 'h%' AS r FROM stream", []c06row{row}, true},
	})
}

// F17: substring(str, start, length) panics (slice bounds) when start+length overflows int64.
func TestC06_F17_SubstringPanicsOnHugeLength(t *testing.T) {
	row := c06row{"s": "hello", "big": math.MaxInt64}
	got := c06Eval("SELECT substring(s, 1, big) AS r FROM stream", row)
	if s, ok := got.(string); ok && len(s) > 5 && s[:5] == "PANIC" {
		t.Fatalf("substring(s, 1, big) with big = MaxInt64 panicked through EmitSync: %s", s)
	}
	if got != "ello" && got != nil {
		t.Errorf("substring('hello', 1, MaxInt64) = %#v, want \"ello\" (or NULL/error)", got)
	}
}

// F18: the SQL lexer splits "<>" into "< >" and "1e+1" into "1e + 1"; in a SELECT item the
// broken text is accepted by Execute and silently evaluates to NULL.
func TestC06_F18_LexerSplitsNotEqualAndSignedExponent(t *testing.T) {
	row := c06row{"a": 10}
	c06Check(t, []c06case{
		{"SELECT a + 1e-1 AS r FROM stream", []c06row{row}, 10.1}, // control
		{"SELECT a + 1e+1 AS r FROM stream", []c06row{row}, 20},
		{"SELECT a != 10 AS r FROM stream", []c06row{row}, false}, // control
		{"SELECT a <> 10 AS r FROM stream", []c06row{row}, false},
		{"SELECT CASE WHEN a <> 10 THEN 1 ELSE 0 END AS r FROM stream", []c06row{row}, 0},
	})
}

// F19: LIKE '%' / '%%' is rewritten to the constant true, so it holds for NULL and absent operands.
func TestC06_F19_LikePercentMatchesNull(t *testing.T) {
	row := c06row{"a": 10, "n": nil}
	c06Check(t, []c06case{
		{"SELECT a AS r FROM stream WHERE n LIKE 'h%'", []c06row{row}, c06Filtered}, // control
		{"SELECT a AS r FROM stream WHERE n LIKE '%'", []c06row{row}, c06Filtered},
		{"SELECT a AS r FROM stream WHERE missing LIKE '%%'", []c06row{row}, c06Filtered},
		{"SELECT CASE WHEN n LIKE '%' THEN 1 ELSE 0 END AS r FROM stream", []c06row{row}, 0}, // control: SQL evaluator is right
	})
}

// F20: the function-name validator scans string literals; a '(' inside a literal makes
// Execute reject a well-formed query with "Unknown function".
func TestC06_F20_ParenInsideStringLiteralRejected(t *testing.T) {
	row := c06row{"s": "f(x)"}
	c06Check(t, []c06case{
		{"SELECT length('a)b') AS r FROM stream", []c06row{row}, 3}, // control
		{"SELECT length('a(b') AS r FROM stream", []c06row{row}, 3},
		{"SELECT s AS r FROM stream WHERE s = 'f(x)'", []c06row{row}, "f(x)"},
	})
}
