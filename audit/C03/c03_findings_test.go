package streamsql

// Failing tests for property C03 (aggregate functions equal their mathematical
// definition on the rows of the batch). Place this file in the repository root
// (package streamsql). Every test fails on the unmodified checkout.

import (
	"math"
	"testing"
	"time"
)

type c03Row = map[string]interface{}

// c03Run executes sql, emits the rows of one batch and returns the single
// emitted result row (all queries below emit exactly one group per batch).
func c03Run(t *testing.T, sql string, rows []c03Row) c03Row {
	t.Helper()
	s := New()
	if err := s.Execute(sql); err != nil {
		t.Fatalf("Execute(%q): %v", sql, err)
	}
	defer s.Stop()
	ch := make(chan []map[string]interface{}, 16)
	s.AddSink(func(rs []map[string]interface{}) { ch <- rs })
	for _, r := range rows {
		s.Emit(r)
	}
	select {
	case rs := <-ch:
		if len(rs) != 1 {
			t.Fatalf("expected 1 result row, got %d: %v", len(rs), rs)
		}
		return rs[0]
	case <-time.After(3 * time.Second):
		t.Fatalf("no emission for %q", sql)
	}
	return nil
}

func c03Num(t *testing.T, row c03Row, key string, want float64) {
	t.Helper()
	v, ok := row[key]
	if !ok {
		t.Errorf("%s: missing from result row %v (want %v)", key, row, want)
		return
	}
	var got float64
	switch x := v.(type) {
	case float64:
		got = x
	case int:
		got = float64(x)
	case int64:
		got = float64(x)
	default:
		t.Errorf("%s = %v (%T), want %v", key, v, v, want)
		return
	}
	if math.Abs(got-want) > 1e-9 {
		t.Errorf("%s = %v, want %v", key, got, want)
	}
}

// F1: stddev is documented as the POPULATION standard deviation
// (docs/FUNCTIONS_USAGE_GUIDE.md "总体标准差"; docs/FUNCTION_INTEGRATION.md:
// stddev(1,2,3) -> 0.816) but the windowed aggregate divides by n-1.
func TestC03_F1_StddevIsSampleNotPopulation(t *testing.T) {
	rows := []c03Row{{"a": 1}, {"a": 2}, {"a": 3}}
	r := c03Run(t, "SELECT stddev(a) AS sd, var(a) AS v, stddevs(a) AS sds FROM stream GROUP BY CountingWindow(3)", rows)
	c03Num(t, r, "v", 2.0/3.0)             // population variance: passes
	c03Num(t, r, "sds", 1.0)               // sample stddev: passes
	c03Num(t, r, "sd", math.Sqrt(2.0/3.0)) // FAILS: got 1 (== stddevs)

	// a single row: population stddev of {5} is 0 -> fine; two rows {0,2}: population stddev = 1
	r = c03Run(t, "SELECT stddev(a) AS sd FROM stream GROUP BY CountingWindow(2)", []c03Row{{"a": 0}, {"a": 2}})
	c03Num(t, r, "sd", 1.0) // FAILS: got 1.4142
}

// F2: an explicit NULL operand of "+" inside an aggregate argument is not
// propagated (NULL + x = NULL -> row skipped); the evaluator falls back to a
// string concatenation in which NULL is "" and the remaining operands are
// glued together as text ("" + "20" + "2" = "202").
func TestC03_F2_NullOperandOfPlusIsConcatenated(t *testing.T) {
	rows := []c03Row{
		{"a": 1, "b": 10, "c": 2},
		{"a": nil, "b": 20, "c": 2}, // NULL + 20 + 2 = NULL -> skipped
		{"a": -3, "b": nil, "c": 2}, // -3 + NULL + 2 = NULL -> skipped
	}
	r := c03Run(t, "SELECT sum(a + b + c) AS s3, count(a + b + c) AS c3, sum(a + b) AS s2, count(a + b) AS c2, sum(a - b) AS d2, count(a - b) AS cd FROM stream GROUP BY CountingWindow(3)", rows)
	c03Num(t, r, "d2", -9) // control: "-" propagates NULL correctly
	c03Num(t, r, "cd", 1)  // control
	c03Num(t, r, "s3", 13) // FAILS: got 183 (13 + 202 + -32)
	c03Num(t, r, "c3", 1)  // FAILS: got 3
	c03Num(t, r, "s2", 11) // FAILS: got 28 (11 + 20 + -3)
	c03Num(t, r, "c2", 1)  // FAILS: got 3
}

// F3: an arithmetic argument is not evaluated per row when the aggregate call is
// part of a larger SELECT item (sum(a + c) + 1) or is the first argument of a
// parameterised aggregate (nth_value(a + c, 2), percentile(a * 2, 0.5)): the text
// "a + c" is looked up as a column name, so the aggregate sees no input.
func TestC03_F3_ArithmeticArgumentTreatedAsColumnName(t *testing.T) {
	rows := []c03Row{
		{"a": 5, "b": 1.0, "c": 2},
		{"a": 1, "b": 2.0, "c": 2},
		{"a": 3, "b": 3.0, "c": 2},
		{"a": 9, "b": 4.0, "c": 2},
	}
	r := c03Run(t, "SELECT sum(a + c) AS s, sum(a + c) + 1 AS s1, sum(a * b) / sum(b) AS wavg, max(a + c) - min(a + c) AS rng FROM stream GROUP BY CountingWindow(4)", rows)
	c03Num(t, r, "s", 26)     // control: stand-alone call works
	c03Num(t, r, "s1", 27)    // FAILS: nil
	c03Num(t, r, "wavg", 5.2) // FAILS: nil  ((5+2+9+36)/10)
	c03Num(t, r, "rng", 8)    // FAILS: nil  (11 - 3)

	r = c03Run(t, "SELECT nth_value(a, 2) AS na, nth_value(a + c, 2) AS n2, percentile(a, 0.5) AS pa, percentile(a * 2, 0.5) AS p2 FROM stream GROUP BY CountingWindow(4)", rows)
	c03Num(t, r, "na", 1) // control
	c03Num(t, r, "pa", 3) // control
	c03Num(t, r, "n2", 3) // FAILS: nil   (a+c = 7,3,5,11)
	c03Num(t, r, "p2", 6) // FAILS: 0     (a*2 sorted = 2,6,10,18)
}

// F4: a unary minus on a column makes the whole aggregate NULL as soon as the
// argument also contains a decimal literal or a nested path: the SELECT item is
// re-assembled as "- a * 1.5" / "c * 0.5 - - a" / "- n.x", which the custom
// expression engine (chosen because the text contains ".") rejects; the error is
// swallowed per row.
func TestC03_F4_UnaryMinusWithDecimalLiteralOrNestedPath(t *testing.T) {
	rows := []c03Row{
		{"a": 5, "c": 2, "n": c03Row{"x": 1}},
		{"a": 1, "c": 2, "n": c03Row{"x": 2}},
		{"a": 3, "c": 2, "n": c03Row{"x": 3}},
		{"a": 9, "c": 2, "n": c03Row{"x": 4}},
	}
	r := c03Run(t, "SELECT max(-a * 2) AS ctl, max(-a * 1.5) AS m, sum(c * 0.5 - -a) AS s, sum(-n.x) AS sn, count(-n.x) AS cn FROM stream GROUP BY CountingWindow(4)", rows)
	c03Num(t, r, "ctl", -2) // control: integer literal goes through expr-lang and works
	c03Num(t, r, "m", -1.5) // FAILS: nil
	c03Num(t, r, "s", 22)   // FAILS: nil   (4*1 + 18)
	c03Num(t, r, "sn", -10) // FAILS: nil
	c03Num(t, r, "cn", 4)   // FAILS: 0
}

// F5: the GLOBAL WINDOW keeps its own running aggregates and (a) ignores the
// expression of an aggregate argument, feeding only the first referenced column
// (sum(a + c) == sum(a)), (b) drops an explicit NULL for first_value/last_value.
func TestC03_F5_GlobalWindowIgnoresExpressionArgumentAndNullFirstValue(t *testing.T) {
	rows := []c03Row{
		{"a": nil, "c": 2},
		{"a": 2, "c": 2},
		{"a": 3, "c": 2},
		{"a": 4, "c": 2},
	}
	r := c03Run(t, "SELECT count(*) AS n, sum(a) AS s, sum(a + c) AS se, sum(a * c) AS sm, first_value(a) AS f FROM stream GROUP BY GLOBAL WINDOW TRIGGER WHEN count(*) >= 4", rows)
	c03Num(t, r, "n", 4)   // control
	c03Num(t, r, "s", 9)   // control
	c03Num(t, r, "se", 15) // FAILS: 9  (== sum(a))
	c03Num(t, r, "sm", 18) // FAILS: 9  (== sum(a))
	if v, ok := r["f"]; !ok || v != nil {
		t.Errorf("first_value(a) = %v (present=%v), want explicit NULL of the first row", v, ok) // FAILS: 2
	}
}

// F6 (minor): a parenthesised aggregate call is silently dropped from the output.
func TestC03_F6_ParenthesisedAggregateDropped(t *testing.T) {
	rows := []c03Row{{"a": 5}, {"a": 1}}
	r := c03Run(t, "SELECT (sum(a)) AS s, count(*) AS c FROM stream GROUP BY CountingWindow(2)", rows)
	c03Num(t, r, "c", 2) // control
	c03Num(t, r, "s", 6) // FAILS: key missing
}

// F7 (minor): a back-quoted bare column whose name contains an operator character
// is aggregated as arithmetic over other columns once the back quotes are stripped.
func TestC03_F7_BackquotedColumnEvaluatedAsArithmetic(t *testing.T) {
	rows := []c03Row{
		{"a-b": 100, "a": 5, "b": 1},
		{"a-b": 200, "a": 1, "b": 2},
	}
	r := c03Run(t, "SELECT sum(`a-b`) AS s FROM stream GROUP BY CountingWindow(2)", rows)
	c03Num(t, r, "s", 300) // FAILS: 3  ((5-1)+(1-2))
}

// F8 (low confidence): int inputs are aggregated as float64, so integers above
// 2^53 lose precision even for max/min, which need no arithmetic.
func TestC03_F8_LargeIntegersLosePrecision(t *testing.T) {
	rows := []c03Row{{"a": 9007199254740993}, {"a": 1}}
	r := c03Run(t, "SELECT max(a) AS m FROM stream GROUP BY CountingWindow(2)", rows)
	switch v := r["m"].(type) {
	case float64:
		if int64(v) != 9007199254740993 {
			t.Errorf("max(a) = %d, want 9007199254740993", int64(v)) // FAILS: ...992
		}
	case int:
		if v != 9007199254740993 {
			t.Errorf("max(a) = %d", v)
		}
	default:
		t.Errorf("max(a) = %v (%T)", v, v)
	}
}
