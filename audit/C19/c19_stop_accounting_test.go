package streamsql

import (
	"sync/atomic"
	"testing"
	"time"

	"github.com/rulego/streamsql/logger"
	"github.com/rulego/streamsql/types"
)

func c19cfg(strategy string, size int) types.PerformanceConfig {
	cfg := types.DefaultPerformanceConfig()
	cfg.BufferConfig.DataChannelSize = size
	cfg.BufferConfig.MaxBufferSize = size // no room to expand: isolates the accounting
	cfg.OverflowConfig.Strategy = strategy
	cfg.OverflowConfig.BlockTimeout = 0 // block forever = "never drops"
	return cfg
}

// Rows that were accepted into the input buffer but not yet processed when the
// instance goes quiescent through Stop() are neither processed nor counted in
// input_dropped_count.
func TestC19_BufferedRowsAtStopAreNeitherProcessedNorCounted(t *testing.T) {
	for _, strategy := range []string{"block", "drop", "expand"} {
		t.Run(strategy, func(t *testing.T) {
			s := New(WithLogger(logger.NewDiscardLogger()), WithCustomPerformance(c19cfg(strategy, 16)))
			if err := s.Execute("SELECT * FROM stream"); err != nil {
				t.Fatal(err)
			}
			var processed int64
			s.AddSyncSink(func(rs []map[string]interface{}) {
				time.Sleep(100 * time.Millisecond) // slow consumer
				atomic.AddInt64(&processed, int64(len(rs)))
			})
			const emits = 10 // fits into the buffer: every Emit returns at once, nothing overflows
			for i := 0; i < emits; i++ {
				s.Emit(map[string]interface{}{"i": i})
			}
			s.Stop() // instance is quiescent from here on
			time.Sleep(300 * time.Millisecond)
			st := s.GetStats()
			p := atomic.LoadInt64(&processed)
			t.Logf("emits=%d input_count=%d processed=%d input_dropped_count=%d", emits, st["input_count"], p, st["input_dropped_count"])
			if p+st["input_dropped_count"] != emits {
				t.Errorf("%s: processed(%d) + input_dropped_count(%d) = %d, want %d Emit calls",
					strategy, p, st["input_dropped_count"], p+st["input_dropped_count"], emits)
			}
		})
	}
}

// A producer that is inside Emit (blocked on a full buffer with the block
// strategy, or in its retry loop with drop/expand) when Stop() closes `done`
// returns without the row being processed and without input_dropped_count
// being incremented.
func TestC19_InflightEmitReleasedByStopIsNotCounted(t *testing.T) {
	s := New(WithLogger(logger.NewDiscardLogger()), WithCustomPerformance(c19cfg("block", 1)))
	if err := s.Execute("SELECT * FROM stream"); err != nil {
		t.Fatal(err)
	}
	var processed int64
	s.AddSyncSink(func(rs []map[string]interface{}) {
		time.Sleep(300 * time.Millisecond)
		atomic.AddInt64(&processed, int64(len(rs)))
	})
	const emits = 3 // row0 -> being processed, row1 -> buffer (size 1), row2 -> Emit blocks
	returned := make(chan struct{})
	go func() {
		for i := 0; i < emits; i++ {
			s.Emit(map[string]interface{}{"i": i})
		}
		close(returned)
	}()
	time.Sleep(100 * time.Millisecond)
	s.Stop()
	select {
	case <-returned:
	case <-time.After(5 * time.Second):
		t.Fatal("producer still blocked after Stop")
	}
	time.Sleep(400 * time.Millisecond)
	st := s.GetStats()
	p := atomic.LoadInt64(&processed)
	t.Logf("emits=%d input_count=%d processed=%d input_dropped_count=%d", emits, st["input_count"], p, st["input_dropped_count"])
	if p+st["input_dropped_count"] != emits {
		t.Errorf("processed(%d) + input_dropped_count(%d) = %d, want %d Emit calls (block strategy without timeout lost rows silently)",
			p, st["input_dropped_count"], p+st["input_dropped_count"], emits)
	}
}
