// Package c15 holds failing tests for property C15 (MATCH_RECOGNIZE reports exactly
// the valid leftmost-longest matches per partition). Public API only.
package c15

import (
	"fmt"
	"strings"
	"sync"
	"testing"
	"time"

	"github.com/rulego/streamsql"
)

type row = map[string]any

// measures that do not depend on any of the behaviours under test
const stdMeasures = "MEASURES MATCH_NUMBER() AS mn, FIRST(ts) AS s, LAST(ts) AS e, COUNT(*) AS n"

// runMR executes sql, emits rows (optionally sleeping gap between rows), waits for the
// single processing goroutine to drain, stops (which flushes) and returns all output rows
// in production order (sync sink = inline in the processing goroutine).
// ok=false means Execute rejected the statement (an explicit error is acceptable behaviour).
func runMR(t *testing.T, sql string, rows []row, gap time.Duration) (out []row, ok bool) {
	t.Helper()
	s := streamsql.New()
	if err := s.Execute(sql); err != nil {
		t.Logf("Execute rejected the statement: %v", err)
		return nil, false
	}
	var mu sync.Mutex
	s.AddSyncSink(func(r []map[string]any) {
		mu.Lock()
		out = append(out, r...)
		mu.Unlock()
	})
	for i, r := range rows {
		s.Emit(r)
		if gap > 0 && i < len(rows)-1 {
			time.Sleep(gap)
		}
	}
	time.Sleep(300 * time.Millisecond)
	s.Stop()
	mu.Lock()
	defer mu.Unlock()
	return out, true
}

func num(v any) string {
	switch x := v.(type) {
	case float64:
		return fmt.Sprintf("%g", x)
	case nil:
		return "NULL"
	}
	return fmt.Sprint(v)
}

// spans renders each output row as "#mn[s..e]".
func spans(out []row) string {
	var parts []string
	for _, r := range out {
		parts = append(parts, fmt.Sprintf("#%s[%s..%s]", num(r["mn"]), num(r["s"]), num(r["e"])))
	}
	return strings.Join(parts, " ")
}

func krows(ks ...int) []row {
	var rows []row
	for i, k := range ks {
		rows = append(rows, row{"ts": i + 1, "k": k})
	}
	return rows
}

// F1: a match with a LATER start is emitted while a run with an EARLIER start is still
// being extended; emitting it moves nextStart forward and prunes the earlier run (and its
// pending completion), so the leftmost match is lost / a non-leftmost one is reported.
func TestC15_F1_LaterStartEmittedWhileEarlierStartStillRunning(t *testing.T) {
	t.Run("alternation_skip_past_last_row", func(t *testing.T) {
		sql := "SELECT * FROM stream MATCH_RECOGNIZE (ORDER BY ts " + stdMeasures +
			" ONE ROW PER MATCH AFTER MATCH SKIP PAST LAST ROW PATTERN (A B C | B) DEFINE A AS k == 1, B AS k == 2, C AS k == 3)"
		out, _ := runMR(t, sql, krows(1, 2, 3), 0)
		// rows 1..3 spell "A B C", the leftmost (and longest) match; row 2 alone may not be reported.
		if got, want := spans(out), "#1[1..3]"; got != want {
			t.Fatalf("got %q want %q", got, want)
		}
	})
	t.Run("optional_tail_accepting_prefix_dropped", func(t *testing.T) {
		sql := "SELECT * FROM stream MATCH_RECOGNIZE (ORDER BY ts " + stdMeasures +
			" ONE ROW PER MATCH PATTERN (A (B C)? | B) DEFINE A AS k == 1, B AS k == 2, C AS k == 3)"
		out, _ := runMR(t, sql, krows(1, 2, 1), 0)
		// start 1: "A" (A B is not followed by C); then B at row 2; then A at row 3.
		if got, want := spans(out), "#1[1..1] #2[2..2] #3[3..3]"; got != want {
			t.Fatalf("got %q want %q", got, want)
		}
	})
	t.Run("single_variable_skip_to_next_row", func(t *testing.T) {
		sql := "SELECT * FROM stream MATCH_RECOGNIZE (ORDER BY ts " + stdMeasures +
			" ONE ROW PER MATCH AFTER MATCH SKIP TO NEXT ROW PATTERN (A+) DEFINE A AS v >= AVG(v))"
		rows := []row{{"ts": 1, "v": 3}, {"ts": 2, "v": 2}, {"ts": 3, "v": 5}, {"ts": 4, "v": 4}}
		out, _ := runMR(t, sql, rows, 0)
		// start1: [3] (2 < avg 2.5). start2: 2,5,4 all >= running avg -> [2..4]. start3: [5] (4 < 4.5). start4: [4].
		if got, want := spans(out), "#1[1..1] #2[2..4] #3[3..3] #4[4..4]"; got != want {
			t.Fatalf("got %q want %q", got, want)
		}
	})
}

// F2: AFTER MATCH SKIP TO FIRST/LAST <var> resumes one row AFTER the row mapped to <var>
// instead of AT that row.
func TestC15_F2_SkipToVariableResumesOneRowTooLate(t *testing.T) {
	for _, skip := range []string{"AFTER MATCH SKIP TO LAST B", "AFTER MATCH SKIP TO FIRST B"} {
		t.Run(skip, func(t *testing.T) {
			sql := "SELECT * FROM stream MATCH_RECOGNIZE (ORDER BY ts " + stdMeasures +
				" ONE ROW PER MATCH " + skip + " PATTERN (A B) DEFINE A AS k >= 1, B AS k >= 2)"
			out, _ := runMR(t, sql, krows(1, 2, 2), 0)
			// match 1 = rows 1,2 (A B). Resume AT row 2 (the B row): row 2 as A, row 3 as B -> match 2.
			if got, want := spans(out), "#1[1..2] #2[2..3]"; got != want {
				t.Fatalf("got %q want %q", got, want)
			}
		})
	}
}

// F3: FIRST(X.col) / LAST(X.col) ignore the variable qualifier X.
func TestC15_F3_FirstLastIgnoreVariableQualifier(t *testing.T) {
	sql := "SELECT * FROM stream MATCH_RECOGNIZE (ORDER BY ts " +
		"MEASURES FIRST(B.v) AS fb, LAST(B.v) AS lb, LAST(A.v) AS la, MIN(B.v) AS minb, MAX(B.v) AS maxb " +
		"ONE ROW PER MATCH PATTERN (A B+ C) DEFINE A AS k == 1, B AS k == 2, C AS k == 3)"
	rows := []row{{"ts": 1, "k": 1, "v": 100}, {"ts": 2, "k": 2, "v": 21}, {"ts": 3, "k": 2, "v": 22}, {"ts": 4, "k": 2, "v": 23}, {"ts": 5, "k": 3, "v": 300}}
	out, _ := runMR(t, sql, rows, 0)
	if len(out) != 1 {
		t.Fatalf("want 1 match, got %v", out)
	}
	got := fmt.Sprintf("fb=%s lb=%s la=%s minb=%s maxb=%s", num(out[0]["fb"]), num(out[0]["lb"]), num(out[0]["la"]), num(out[0]["minb"]), num(out[0]["maxb"]))
	want := "fb=21 lb=23 la=100 minb=21 maxb=23"
	if got != want {
		t.Fatalf("got %q want %q", got, want)
	}
}

// F4: a navigation/aggregate/qualified reference followed by "- <number>" makes the whole
// DEFINE condition un-evaluable (always false): "v > PREV(v) - 1".
func TestC15_F4_MinusLiteralAfterNavigationCall(t *testing.T) {
	for _, cond := range []string{"v > PREV(v) - 1", "v > A.v - 1", "SUM(v) - 1 > 0"} {
		t.Run(cond, func(t *testing.T) {
			sql := "SELECT * FROM stream MATCH_RECOGNIZE (ORDER BY ts " + stdMeasures +
				" ONE ROW PER MATCH PATTERN (A B) DEFINE A AS k == 1, B AS " + cond + ")"
			rows := []row{{"ts": 1, "k": 1, "v": 5}, {"ts": 2, "k": 2, "v": 5}}
			out, ok := runMR(t, sql, rows, 0)
			if !ok {
				return
			}
			// 5 > 5-1 ; 5 > 5-1 ; 10-1 > 0  -> row 2 is a B, rows 1..2 match.
			if got, want := spans(out), "#1[1..2]"; got != want {
				t.Fatalf("got %q want %q", got, want)
			}
		})
	}
}

// F5: DEFINE symbols / qualified references are matched case-sensitively and a DEFINE for
// an unknown spelling is silently ignored (the variable becomes "always true").
func TestC15_F5_DefineSymbolCaseSensitive(t *testing.T) {
	sql := "SELECT * FROM stream MATCH_RECOGNIZE (ORDER BY ts " + stdMeasures +
		" ONE ROW PER MATCH PATTERN (A B) DEFINE a AS k == 1, b AS k == 2)"
	out, ok := runMR(t, sql, krows(3, 3, 1, 2), 0)
	if !ok {
		return // rejecting the statement would be fine
	}
	// SQL identifiers are case-insensitive: only rows 3,4 (k=1,k=2) spell A B.
	if got, want := spans(out), "#1[3..4]"; got != want {
		t.Fatalf("got %q want %q", got, want)
	}
}

// F6: NOT / IN / BETWEEN / TRUE in a DEFINE condition are accepted by Execute but can never
// be evaluated, so the variable never matches (one log line, otherwise silent).
func TestC15_F6_BooleanSqlOperatorsNeverMatch(t *testing.T) {
	for _, cond := range []string{"NOT (k == 1)", "k IN (2, 3)", "k BETWEEN 2 AND 3", "TRUE"} {
		t.Run(cond, func(t *testing.T) {
			sql := "SELECT * FROM stream MATCH_RECOGNIZE (ORDER BY ts " + stdMeasures +
				" ONE ROW PER MATCH PATTERN (A B) DEFINE A AS k == 1, B AS " + cond + ")"
			out, ok := runMR(t, sql, krows(1, 2), 0)
			if !ok {
				return // an explicit "unsupported" error would be fine
			}
			if got, want := spans(out), "#1[1..2]"; got != want {
				t.Fatalf("got %q want %q", got, want)
			}
		})
	}
}

// F7: "<NULL comparison> OR <true>" is false when the NULL (missing column) operand is on the left,
// true when it is on the right.
func TestC15_F7_OrWithNullLeftOperand(t *testing.T) {
	for _, cond := range []string{"k == 2 OR w > 5", "w > 5 OR k == 2"} {
		t.Run(cond, func(t *testing.T) {
			sql := "SELECT * FROM stream MATCH_RECOGNIZE (ORDER BY ts " + stdMeasures +
				" ONE ROW PER MATCH PATTERN (A B) DEFINE A AS k == 1, B AS " + cond + ")"
			out, _ := runMR(t, sql, krows(1, 2), 0) // rows have no column w
			if got, want := spans(out), "#1[1..2]"; got != want {
				t.Fatalf("got %q want %q", got, want)
			}
		})
	}
}

// F8: SUM over zero rows is 0 instead of NULL, so "v > SUM(A.v)" holds when no A row exists.
func TestC15_F8_SumOverNoRowsIsZero(t *testing.T) {
	sql := "SELECT * FROM stream MATCH_RECOGNIZE (ORDER BY ts " + stdMeasures +
		" ONE ROW PER MATCH PATTERN (A? B) DEFINE A AS k == 1, B AS v > SUM(A.v))"
	rows := []row{{"ts": 1, "k": 2, "v": 20}, {"ts": 2, "k": 1, "v": 10}, {"ts": 3, "k": 2, "v": 20}}
	out, _ := runMR(t, sql, rows, 0)
	// row 1 alone: no A row -> SUM(A.v) is NULL -> condition unknown -> not a B. Only rows 2..3 (A B, 20 > 10).
	if got, want := spans(out), "#1[2..3]"; got != want {
		t.Fatalf("got %q want %q", got, want)
	}
}

// F9: the partition key embeds the Go type of the value: dev=1 (int), dev=int64(1) and dev=1.0
// are three different partitions.
func TestC15_F9_PartitionKeyDependsOnGoNumericType(t *testing.T) {
	sql := "SELECT * FROM stream MATCH_RECOGNIZE (PARTITION BY dev ORDER BY ts " + stdMeasures +
		" ONE ROW PER MATCH PATTERN (A B) DEFINE A AS k == 1, B AS k == 2)"
	for name, second := range map[string]any{"int_then_float64": 1.0, "int_then_int64": int64(1)} {
		t.Run(name, func(t *testing.T) {
			rows := []row{{"dev": 1, "ts": 1, "k": 1}, {"dev": second, "ts": 2, "k": 2}}
			out, _ := runMR(t, sql, rows, 0)
			if got, want := spans(out), "#1[1..2]"; got != want {
				t.Fatalf("got %q want %q", got, want)
			}
		})
	}
}

// F10: a background sweeper expires partial matches by WALL-CLOCK age of the event timestamp,
// although WITHIN is defined on the ORDER BY (event) timestamps. Replayed / late data is lost.
func TestC15_F10_SweeperExpiresByWallClock(t *testing.T) {
	sql := "SELECT * FROM stream MATCH_RECOGNIZE (ORDER BY ts " + stdMeasures +
		" ONE ROW PER MATCH PATTERN (A B) WITHIN '200ms' DEFINE A AS k == 1, B AS k == 2)"
	base := time.Now().Add(-time.Hour).UnixMilli() // events happened an hour ago
	rows := []row{{"ts": base, "k": 1}, {"ts": base + 10, "k": 2}} // 10ms apart in event time
	out, _ := runMR(t, sql, rows, 400*time.Millisecond)
	if len(out) != 1 {
		t.Fatalf("rows are 10ms apart (WITHIN 200ms) and must match; got %v", out)
	}
}

// F11: WITHIN is silently not enforced when the ORDER BY column is not int/int32/int64/float32/float64
// (e.g. uint64 epoch millis): the timestamp is read as 0.
func TestC15_F11_WithinIgnoredForUnsupportedTimestampTypes(t *testing.T) {
	sql := "SELECT * FROM stream MATCH_RECOGNIZE (ORDER BY ts MEASURES MATCH_NUMBER() AS mn, COUNT(*) AS n" +
		" ONE ROW PER MATCH PATTERN (A B) WITHIN '200ms' DEFINE A AS k == 1, B AS k == 2)"
	now := time.Now().UnixMilli()
	t.Run("int64_control", func(t *testing.T) {
		out, _ := runMR(t, sql, []row{{"ts": now, "k": 1}, {"ts": now + 5000, "k": 2}}, 0)
		if len(out) != 0 {
			t.Fatalf("control: 5s apart must not match, got %v", out)
		}
	})
	t.Run("uint64", func(t *testing.T) {
		out, _ := runMR(t, sql, []row{{"ts": uint64(now), "k": 1}, {"ts": uint64(now + 5000), "k": 2}}, 0)
		if len(out) != 0 {
			t.Fatalf("5s apart does not fit in WITHIN 200ms, got %v", out)
		}
	})
}

// F12: a back-quoted column name in DEFINE is never resolved (condition always NULL/false).
func TestC15_F12_BacktickColumnInDefine(t *testing.T) {
	sql := "SELECT * FROM stream MATCH_RECOGNIZE (ORDER BY ts " + stdMeasures +
		" ONE ROW PER MATCH PATTERN (A B) DEFINE A AS `k` == 1, B AS `k` == 2)"
	out, ok := runMR(t, sql, krows(3, 1, 2), 0)
	if !ok {
		return
	}
	if got, want := spans(out), "#1[2..3]"; got != want {
		t.Fatalf("got %q want %q", got, want)
	}
}
