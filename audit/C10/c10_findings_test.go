package streamsql

// Audit tests for property C10 (event-time session windows).
// Place this file in the repository root (package streamsql).
// Every test function fails on the unmodified checkout.

import (
	"fmt"
	"sort"
	"strings"
	"sync"
	"testing"
	"time"
)

type c10ev struct {
	key string
	ts  int64 // ms offset from c10base
}

type c10res struct {
	key        string
	cnt        int
	start, end int64 // window_start / window_end, ms offset from c10base
	minTs      int64 // MIN(ts) of the reported session, ms offset
	maxTs      int64 // MAX(ts) of the reported session, ms offset
}

func (r c10res) String() string {
	return fmt.Sprintf("{%s n=%d ws=%d we=%d min=%d max=%d}", r.key, r.cnt, r.start, r.end, r.minTs, r.maxTs)
}

// two hours in the past: far from the far-future guard and from "now"
var c10base = time.Now().Add(-2 * time.Hour).Truncate(time.Second).UnixMilli()

func c10mk(e c10ev) map[string]any {
	return map[string]any{"k": e.key, "ts": c10base + e.ts}
}

func c10int(v any) int64 {
	switch x := v.(type) {
	case int64:
		return x
	case float64:
		return int64(x)
	case int:
		return int64(x)
	}
	return -1
}

// c10run feeds evs with the given pause between rows, then one row of key "~flush" one hour of event
// time later (it advances the watermark past every session end), and returns the session results of
// all other keys, sorted by key and MIN(ts).
func c10run(t *testing.T, sql string, evs []c10ev, pace time.Duration, mk func(e c10ev) map[string]any, keyCol string) []c10res {
	t.Helper()
	s := New()
	defer s.Stop()
	if err := s.Execute(sql); err != nil {
		t.Fatalf("execute: %v", err)
	}
	var mu sync.Mutex
	var out []c10res
	s.AddSink(func(rs []map[string]any) {
		mu.Lock()
		defer mu.Unlock()
		for _, r := range rs {
			k := fmt.Sprint(r[keyCol])
			if k == "~flush" {
				continue
			}
			out = append(out, c10res{
				key:   k,
				cnt:   int(c10int(r["cnt"])),
				start: c10int(r["ws"])/1e6 - c10base,
				end:   c10int(r["we"])/1e6 - c10base,
				minTs: c10int(r["mn"]) - c10base,
				maxTs: c10int(r["mx"]) - c10base,
			})
		}
	})
	var maxTs int64
	for _, e := range evs {
		if e.ts > maxTs {
			maxTs = e.ts
		}
		s.Emit(mk(e))
		if pace > 0 {
			time.Sleep(pace)
		}
	}
	time.Sleep(300 * time.Millisecond)
	s.Emit(mk(c10ev{"~flush", maxTs + 3600_000}))
	time.Sleep(1200 * time.Millisecond)
	mu.Lock()
	defer mu.Unlock()
	sort.Slice(out, func(i, j int) bool {
		if out[i].key != out[j].key {
			return out[i].key < out[j].key
		}
		if out[i].minTs != out[j].minTs {
			return out[i].minTs < out[j].minTs
		}
		return out[i].start < out[j].start
	})
	return append([]c10res(nil), out...)
}

// c10expect is the property itself: per key, sort the timestamps, split at gaps > timeout,
// window_start = earliest, window_end = latest + timeout.
func c10expect(evs []c10ev, timeout int64) []c10res {
	by := map[string][]int64{}
	for _, e := range evs {
		by[e.key] = append(by[e.key], e.ts)
	}
	var out []c10res
	for k, tss := range by {
		sort.Slice(tss, func(i, j int) bool { return tss[i] < tss[j] })
		cur := c10res{key: k, cnt: 1, start: tss[0], minTs: tss[0], maxTs: tss[0]}
		for _, ts := range tss[1:] {
			if ts-cur.maxTs > timeout {
				cur.end = cur.maxTs + timeout
				out = append(out, cur)
				cur = c10res{key: k, cnt: 1, start: ts, minTs: ts, maxTs: ts}
			} else {
				cur.cnt++
				cur.maxTs = ts
			}
		}
		cur.end = cur.maxTs + timeout
		out = append(out, cur)
	}
	sort.Slice(out, func(i, j int) bool {
		if out[i].key != out[j].key {
			return out[i].key < out[j].key
		}
		return out[i].minTs < out[j].minTs
	})
	return out
}

func c10fmt(rs []c10res) string {
	var sb strings.Builder
	for _, r := range rs {
		sb.WriteString(r.String())
		sb.WriteString(" ")
	}
	return sb.String()
}

const c10sql = `SELECT k, COUNT(*) AS cnt, MIN(ts) AS mn, MAX(ts) AS mx, window_start() AS ws, window_end() AS we
FROM stream GROUP BY k, SessionWindow('%s') WITH (TIMESTAMP='ts', TIMEUNIT='ms'%s)`

// Finding 1: a row that arrives out of order but within MAXOUTOFORDERNESS (so it is accepted, not
// late) is always appended to the key's newest session: window_start is not lowered, a row more than
// the timeout before that session is not given its own session, a row that belongs to an earlier
// (gap-closed, not yet delivered) session of the key does not reach it, and a row that bridges two
// sessions does not merge them.
func TestC10_F1_OutOfOrderWithinTolerance(t *testing.T) {
	cases := []struct {
		name string
		evs  []c10ev
	}{
		// expected one session ws=500 we=2000; actual ws=1000
		{"earlier-than-start", []c10ev{{"a", 1000}, {"a", 500}}},
		// expected sessions {500} and {4000}; actual one session {4000,500}, ws=4000 (rows 3.5s apart, timeout 1s)
		{"earlier-than-start-by-more-than-timeout", []c10ev{{"a", 4000}, {"a", 500}}},
		// expected {0,300} we=1300 and {5000}; actual {0} and {5000,300}
		{"belongs-to-earlier-session", []c10ev{{"a", 0}, {"a", 5000}, {"a", 300}}},
		// expected one session {0,800,1500}; actual {0} and {1500,800} with ws=1500
		{"bridges-two-sessions", []c10ev{{"a", 0}, {"a", 1500}, {"a", 800}}},
	}
	for _, c := range cases {
		c := c
		t.Run(c.name, func(t *testing.T) {
			t.Parallel()
			got := c10run(t, fmt.Sprintf(c10sql, "1s", ", MAXOUTOFORDERNESS='10s'"), c.evs, 0, c10mk, "k")
			g, e := c10fmt(got), c10fmt(c10expect(c.evs, 1000))
			if g != e {
				t.Errorf("\n got: %s\n exp: %s", g, e)
			}
		})
	}
}

// Finding 2: in-order input (timestamps never decrease), timeout 1s, no out-of-orderness.
// a@0, b@1000, a@1000: the two rows of a are exactly the timeout apart (not above it), so they are one
// session [0, 2000]. Fed fast that is what comes out; fed slowly the expiry goroutine fires a's
// session at watermark == window_end (1000) and a@1000 - which is not late - starts a second session.
func TestC10_F2_SessionFiredAtWatermarkEqualEnd_DependsOnFeedSpeed(t *testing.T) {
	evs := []c10ev{{"a", 0}, {"b", 1000}, {"a", 1000}}
	exp := c10fmt(c10expect(evs, 1000))
	fast := c10fmt(c10run(t, fmt.Sprintf(c10sql, "1s", ""), evs, 0, c10mk, "k"))
	slow := c10fmt(c10run(t, fmt.Sprintf(c10sql, "1s", ""), evs, 400*time.Millisecond, c10mk, "k"))
	t.Logf("fast: %s", fast)
	t.Logf("slow: %s", slow)
	if slow != exp {
		t.Errorf("slow feed\n got: %s\n exp: %s", slow, exp)
	}
	if fast != slow {
		t.Errorf("outcome of in-order input depends on the feed speed")
	}
}

// Finding 3: GROUP BY on a nested field. The aggregator resolves d.id (the result rows carry the right
// key and the right counts) but the session window looks the key up flat, finds nothing, and keeps ONE
// session for all keys: a's and b's rows interleave so no gap is ever seen, and every key is reported
// with the window bounds of the merged session.
func TestC10_F3_NestedGroupKeySharesOneSession(t *testing.T) {
	sql := `SELECT d.id AS k, COUNT(*) AS cnt, MIN(ts) AS mn, MAX(ts) AS mx, window_start() AS ws, window_end() AS we
FROM stream GROUP BY d.id, SessionWindow('1s') WITH (TIMESTAMP='ts', TIMEUNIT='ms')`
	evs := []c10ev{{"a", 0}, {"b", 600}, {"a", 1200}, {"b", 1800}, {"a", 2400}}
	mk := func(e c10ev) map[string]any {
		return map[string]any{"d": map[string]any{"id": e.key}, "ts": c10base + e.ts}
	}
	got := c10run(t, sql, evs, 0, mk, "k")
	g, e := c10fmt(got), c10fmt(c10expect(evs, 1000))
	if g != e {
		t.Errorf("\n got: %s\n exp: %s", g, e)
	}
}

// Finding 4: 200 keys, one row each (in order, 1ms apart), timeout 10s, then the watermark passes all
// ends at once. Every session is its own batch on a 50-slot output channel that is filled in a tight
// loop with the drop-oldest policy: ~51 of the 200 sessions reach the sink, and the window statistics
// report droppedCount=0 / sentCount=200.
func TestC10_F4_SessionsClosingTogetherAreLost(t *testing.T) {
	const n = 200
	var evs []c10ev
	for i := 0; i < n; i++ {
		evs = append(evs, c10ev{fmt.Sprintf("k%04d", i), int64(i)})
	}
	got := c10run(t, fmt.Sprintf(c10sql, "10s", ""), evs, 300*time.Microsecond, c10mk, "k")
	if len(got) != n {
		t.Errorf("got %d session results, expected %d (one per key)", len(got), n)
	}
}

// Finding 5: a numeric timeout is in seconds; SessionWindow(1.5) is silently truncated to 1s
// (SessionWindow('1.5s') and SessionWindow('1500ms') work). Rows 1.2s and 1.4s apart are split.
func TestC10_F5_FractionalNumericTimeoutTruncated(t *testing.T) {
	sql := `SELECT k, COUNT(*) AS cnt, MIN(ts) AS mn, MAX(ts) AS mx, window_start() AS ws, window_end() AS we
FROM stream GROUP BY k, SessionWindow(1.5) WITH (TIMESTAMP='ts', TIMEUNIT='ms')`
	evs := []c10ev{{"a", 0}, {"a", 1200}, {"a", 2600}, {"a", 4200}}
	got := c10run(t, sql, evs, 0, c10mk, "k")
	g, e := c10fmt(got), c10fmt(c10expect(evs, 1500))
	if g != e {
		t.Errorf("\n got: %s\n exp: %s", g, e)
	}
}

// Finding 6 (general GROUP BY key resolution, not specific to sessions - TumblingWindow shows the same
// NULL key): a back-quoted key or a key qualified with the source name/alias resolves to NULL for every
// row, so all keys share one session.
func TestC10_F6_QuotedOrQualifiedKeySharesOneSession(t *testing.T) {
	evs := []c10ev{{"a", 0}, {"b", 600}, {"a", 1200}, {"b", 1800}, {"a", 2400}}
	exp := c10fmt(c10expect(evs, 1000))
	for name, sql := range map[string]string{
		"backquoted": "SELECT `k`, COUNT(*) AS cnt, MIN(ts) AS mn, MAX(ts) AS mx, window_start() AS ws, window_end() AS we FROM stream GROUP BY `k`, SessionWindow('1s') WITH (TIMESTAMP='ts', TIMEUNIT='ms')",
		"alias":      "SELECT s.k AS k, COUNT(*) AS cnt, MIN(ts) AS mn, MAX(ts) AS mx, window_start() AS ws, window_end() AS we FROM stream s GROUP BY s.k, SessionWindow('1s') WITH (TIMESTAMP='ts', TIMEUNIT='ms')",
	} {
		got := c10fmt(c10run(t, sql, evs, 0, c10mk, "k"))
		if got != exp {
			t.Errorf("%s\n got: %s\n exp: %s", name, got, exp)
		}
	}
}
