package window

// Audit test for property C10, finding 2, without any timing: place in window/ (package window).

import (
	"testing"
	"time"

	"github.com/rulego/streamsql/types"
)

func c10NewSession(t *testing.T) *SessionWindow {
	sw, err := NewSessionWindow(types.WindowConfig{
		Type:               TypeSession,
		Params:             []any{time.Second},
		TsProp:             "ts",
		TimeCharacteristic: types.EventTime,
		WatermarkInterval:  time.Hour, // the test plays the expiry goroutine itself
		GroupByKeys:        []string{"k"},
	})
	if err != nil {
		t.Fatal(err)
	}
	return sw
}

func c10Drain(sw *SessionWindow) map[string][]int {
	out := map[string][]int{}
	for {
		select {
		case b := <-sw.OutputChan():
			k := b[0].Data.(map[string]any)["k"].(string)
			out[k] = append(out[k], len(b))
		default:
			return out
		}
	}
}

// In-order rows a@0, b@1s, a@1s with timeout 1s. The only difference between the two runs is whether
// the expiry goroutine gets to run (with the watermark the rows themselves produced) between b@1s and
// a@1s. The property wants the same outcome: one session of a holding both rows (gap == timeout).
func TestC10_SessionBoundary_ExpiryInterleaving(t *testing.T) {
	base := time.Now().Add(-2 * time.Hour).Truncate(time.Second)
	run := func(expiryRunsInBetween bool) map[string][]int {
		sw := c10NewSession(t) // not started: no background goroutine
		defer sw.Stop()
		sw.Add(map[string]any{"k": "a", "ts": base})
		sw.Add(map[string]any{"k": "b", "ts": base.Add(time.Second)})
		if expiryRunsInBetween {
			sw.checkAndTriggerSessions(sw.watermark.GetCurrentWatermark()) // == base+1s
		}
		sw.Add(map[string]any{"k": "a", "ts": base.Add(time.Second)})
		sw.checkAndTriggerSessions(base.Add(time.Hour))
		return c10Drain(sw)
	}
	fast, slow := run(false), run(true)
	t.Logf("producer faster than expiry: a=%v", fast["a"])
	t.Logf("expiry ran in between:       a=%v", slow["a"])
	if len(slow["a"]) != 1 || slow["a"][0] != 2 {
		t.Errorf("a's rows 0 and +1s (gap == timeout) must be one session of 2 rows, got sessions with sizes %v", slow["a"])
	}
}
