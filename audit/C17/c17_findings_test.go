// Failing tests for property C17 (GLOBAL WINDOW TRIGGER WHEN). Place at test/c17/c17_findings_test.go.
package c17

import (
	"fmt"
	"sort"
	"strings"
	"sync"
	"testing"
	"time"

	"github.com/rulego/streamsql"
)

type R = map[string]any

// run executes sql, emits the rows one by one (in order) and returns every result row
// delivered to the sink, in arrival order (window_start/window_end removed).
func run(t *testing.T, sql string, rows []R) []R {
	t.Helper()
	s := streamsql.New()
	defer s.Stop()
	if err := s.Execute(sql); err != nil {
		t.Fatalf("Execute(%s): %v", sql, err)
	}
	var mu sync.Mutex
	var out []R
	last := time.Now()
	s.AddSink(func(res []map[string]any) {
		mu.Lock()
		defer mu.Unlock()
		for _, r := range res {
			c := R{}
			for k, v := range r {
				if k == "window_start" || k == "window_end" {
					continue
				}
				c[k] = v
			}
			out = append(out, c)
		}
		last = time.Now()
	})
	for _, r := range rows {
		s.Emit(r)
		time.Sleep(20 * time.Millisecond) // one row at a time: results arrive in firing order
	}
	for {
		time.Sleep(100 * time.Millisecond)
		mu.Lock()
		idle := time.Since(last) > 400*time.Millisecond
		mu.Unlock()
		if idle {
			break
		}
	}
	mu.Lock()
	defer mu.Unlock()
	return append([]R(nil), out...)
}

func show(rs []R) string {
	parts := make([]string, len(rs))
	for i, r := range rs {
		keys := make([]string, 0, len(r))
		for k := range r {
			keys = append(keys, k)
		}
		sort.Strings(keys)
		kv := make([]string, len(keys))
		for j, k := range keys {
			kv[j] = fmt.Sprintf("%s=%v", k, r[k])
		}
		parts[i] = "{" + strings.Join(kv, " ") + "}"
	}
	return "[" + strings.Join(parts, ", ") + "]"
}

func check(t *testing.T, sql string, rows []R, want string) {
	t.Helper()
	if got := show(run(t, sql, rows)); got != want {
		t.Errorf("\nSQL:  %s\ngot:  %s\nwant: %s", sql, got, want)
	}
}

func g(d string, v any) R { return R{"d": d, "v": v} }

// F1: a NULL aggregate on the left of OR aborts the whole predicate (NULL OR TRUE must be TRUE).
// After row 2 the group has COUNT(*)=2, SUM(v)=NULL: p = (NULL > 100) OR (2 >= 2) = TRUE -> must fire
// at row 2 with c=2, s=NULL. The library fires only at row 3 (c=3, s=3).
func TestC17_F1_NullAggregateAbortsOr(t *testing.T) {
	check(t,
		`SELECT d, COUNT(*) AS c, SUM(v) AS s FROM stream GROUP BY d, GLOBAL WINDOW TRIGGER WHEN SUM(v) > 100 OR COUNT(*) >= 2`,
		[]R{g("a", nil), g("a", nil), g("a", 3)},
		`[{c=2 d=a s=<nil>}]`)
}

// F1 (second shape, parenthesised so the condition fast path is not involved): never fires at all.
func TestC17_F1_NullAggregateAbortsOr_Parens(t *testing.T) {
	check(t,
		`SELECT d, COUNT(*) AS c FROM stream GROUP BY d, GLOBAL WINDOW TRIGGER WHEN (MAX(v) > 100) OR (COUNT(*) >= 2)`,
		[]R{g("a", nil), g("a", nil)},
		`[{c=2 d=a}]`)
}

// F2: NULL aggregate compared with != is treated as TRUE. SUM(v) over only-NULL rows is NULL, NULL != 5 is
// not true -> no result at row 1; at row 2 SUM(v)=3, 3 != 5 -> one result with c=2.
// The library fires at row 1 (c=1) and again at row 2 (c=1).
func TestC17_F2_NullNotEqualFires(t *testing.T) {
	check(t,
		`SELECT d, COUNT(*) AS c FROM stream GROUP BY d, GLOBAL WINDOW TRIGGER WHEN SUM(v) != 5`,
		[]R{g("a", nil), g("a", 3)},
		`[{c=2 d=a}]`)
}

// F2 combined with AND: AVG(v) is NULL for rows 1-2, so p is not true until row 3.
func TestC17_F2_NullNotEqualFires_And(t *testing.T) {
	check(t,
		`SELECT d, COUNT(*) AS c FROM stream GROUP BY d, GLOBAL WINDOW TRIGGER WHEN AVG(v) != 0 AND COUNT(*) >= 2`,
		[]R{g("a", nil), g("a", nil), g("a", 1)},
		`[{c=3 d=a}]`)
}

// F3: an aggregate argument in TRIGGER WHEN that is not a bare identifier (backtick-quoted field,
// array element) is looked up by its raw token text and never resolves: the group never fires.
// The same spellings work in the SELECT list and in the other window types.
func TestC17_F3_BacktickFieldInTriggerNeverFires(t *testing.T) {
	check(t,
		"SELECT d, SUM(`v`) AS s FROM stream GROUP BY d, GLOBAL WINDOW TRIGGER WHEN SUM(`v`) >= 3",
		[]R{g("a", 1), g("a", 2), g("a", 3)},
		`[{d=a s=3}, {d=a s=3}]`)
}

func TestC17_F3_ArrayElementInTriggerNeverFires(t *testing.T) {
	check(t,
		`SELECT d, SUM(a[0]) AS s FROM stream GROUP BY d, GLOBAL WINDOW TRIGGER WHEN SUM(a[0]) >= 3`,
		[]R{{"d": "a", "a": []any{1}}, {"d": "a", "a": []any{2}}},
		`[{d=a s=3}]`)
}

// F4: the trigger aggregate is bound to a selected aggregate by a case-insensitive field-name match,
// although field names are case sensitive everywhere else. sum(V) is evaluated on column v.
// Column V sums to 1, 2 (< 10): no result is expected. The library fires on every row because v >= 10.
func TestC17_F4_TriggerBoundToDifferentlyCasedColumn(t *testing.T) {
	check(t,
		`select d, sum(v) as s from stream group by d, GLOBAL WINDOW TRIGGER WHEN sum(V) >= 10`,
		[]R{{"d": "a", "v": 100, "V": 1}, {"d": "a", "v": 20, "V": 1}},
		`[]`)
}

// F5: an aggregate over an expression is computed over the bare column in SELECT (SUM(v+1) -> SUM(v)) ...
func TestC17_F5_ExpressionArgumentInSelectIgnored(t *testing.T) {
	check(t,
		`SELECT d, SUM(v+1) AS s FROM stream GROUP BY d, GLOBAL WINDOW TRIGGER WHEN COUNT(*) >= 2`,
		[]R{g("a", 1), g("a", 2), g("a", 3)},
		`[{d=a s=5}]`)
}

// ... and never evaluates in TRIGGER WHEN (SUM(v+1) is 5 after two rows).
func TestC17_F5_ExpressionArgumentInTriggerNeverFires(t *testing.T) {
	check(t,
		`SELECT d, COUNT(*) AS c FROM stream GROUP BY d, GLOBAL WINDOW TRIGGER WHEN SUM(v+1) >= 5`,
		[]R{g("a", 1), g("a", 2), g("a", 3)},
		`[{c=2 d=a}]`)
}

// F6: an arithmetic combination of aggregates in SELECT is dropped from the result and the internal
// helper aggregate (__sum_<hash>__) is emitted instead.
func TestC17_F6_PostAggregationDroppedHelperLeaks(t *testing.T) {
	check(t,
		`SELECT d, SUM(v)*2 AS s2, COUNT(*) AS c FROM stream GROUP BY d, GLOBAL WINDOW TRIGGER WHEN COUNT(*) >= 2`,
		[]R{g("a", 1), g("a", 2), g("a", 3)},
		`[{c=2 d=a s2=6}]`)
}
