package streamsql

// Audit of property C11 (parser total / layout-insensitive / faithful).
// Every test in this file FAILS on the unmodified checkout.

import (
	"fmt"
	"reflect"
	"strings"
	"sync"
	"testing"
	"time"

	"github.com/rulego/streamsql/rsql"
)

func c11Sync(t *testing.T, sql string, rows ...map[string]interface{}) []map[string]interface{} {
	t.Helper()
	s := New()
	defer s.Stop()
	if err := s.Execute(sql); err != nil {
		t.Fatalf("Execute(%q): %v", sql, err)
	}
	var out []map[string]interface{}
	for _, r := range rows {
		cp := map[string]interface{}{}
		for k, v := range r {
			cp[k] = v
		}
		o, err := s.EmitSync(cp)
		if err != nil {
			t.Fatalf("EmitSync(%q): %v", sql, err)
		}
		out = append(out, o)
	}
	return out
}

func c11Agg(t *testing.T, sql string, wait time.Duration, rows ...map[string]interface{}) []map[string]interface{} {
	t.Helper()
	s := New()
	defer s.Stop()
	if err := s.Execute(sql); err != nil {
		t.Fatalf("Execute(%q): %v", sql, err)
	}
	var mu sync.Mutex
	var out []map[string]interface{}
	s.AddSink(func(b []map[string]interface{}) {
		mu.Lock()
		defer mu.Unlock()
		out = append(out, b...)
	})
	for _, r := range rows {
		cp := map[string]interface{}{}
		for k, v := range r {
			cp[k] = v
		}
		s.Emit(cp)
	}
	time.Sleep(wait)
	mu.Lock()
	defer mu.Unlock()
	return append([]map[string]interface{}(nil), out...)
}

// F1: a WHERE (or HAVING) clause of more than 100 tokens is dropped without any error.
func TestC11_F1_LongWhereSilentlyDropped(t *testing.T) {
	var conds []string
	for i := 0; i < 26; i++ { // 26 comparisons joined by OR = 103 tokens
		conds = append(conds, fmt.Sprintf("d = 'dev%d'", i))
	}
	sql := "SELECT a FROM s WHERE " + strings.Join(conds, " OR ")

	cfg, cond, err := rsql.Parse(sql)
	if err != nil {
		t.Logf("Parse returned an error (acceptable): %v", err)
		return
	}
	_ = cfg
	if cond == "" {
		t.Errorf("Parse succeeded but the WHERE text is empty; the written WHERE clause was dropped")
	}
	out := c11Sync(t, sql, map[string]interface{}{"a": 1.0, "d": "other"})
	if out[0] != nil {
		t.Errorf("row with d='other' matches none of the 26 alternatives but passed the filter: %v", out[0])
	}
}

func TestC11_F1b_LongHavingSilentlyDropped(t *testing.T) {
	var conds []string
	for i := 0; i < 26; i++ {
		conds = append(conds, fmt.Sprintf("c = %d", 100+i))
	}
	sql := "SELECT d, count(*) AS c FROM s GROUP BY d, CountingWindow(2) HAVING " + strings.Join(conds, " OR ")
	cfg, _, err := rsql.Parse(sql)
	if err != nil {
		t.Logf("Parse returned an error (acceptable): %v", err)
		return
	}
	if cfg.Having == "" {
		t.Errorf("Parse succeeded but config.Having is empty; the written HAVING clause was dropped")
	}
}

// F2: HAVING written after WITH(...) - the order the repo's own e2e test uses - is dropped.
func TestC11_F2_HavingAfterWithDropped(t *testing.T) {
	a := "SELECT d, count(*) AS c FROM s GROUP BY d, CountingWindow(2) HAVING c > 5 WITH (STATETTL='5s')"
	b := "SELECT d, count(*) AS c FROM s GROUP BY d, CountingWindow(2) WITH (STATETTL='5s') HAVING c > 5"
	ca, _, err := rsql.Parse(a)
	if err != nil {
		t.Fatal(err)
	}
	cb, _, err := rsql.Parse(b)
	if err != nil {
		t.Logf("Parse returned an error for WITH..HAVING (acceptable): %v", err)
		return
	}
	if ca.Having != cb.Having {
		t.Errorf("HAVING c > 5: config.Having=%q when written before WITH, %q when written after WITH", ca.Having, cb.Having)
	}
	rows := []map[string]interface{}{{"d": "x", "t": 1.0}, {"d": "x", "t": 2.0}}
	out := c11Agg(t, b, 300*time.Millisecond, rows...)
	if len(out) != 0 {
		t.Errorf("count is 2, HAVING c > 5 must suppress the group, got %v", out)
	}
}

// F3a: the ORDER BY inside MATCH_RECOGNIZE(...) becomes the statement's ORDER BY keys.
func TestC11_F3a_MatchRecognizeOrderByLeaksIntoConfig(t *testing.T) {
	sql := `SELECT * FROM stream
MATCH_RECOGNIZE (
    ORDER BY ts
    MEASURES MATCH_NUMBER() AS mn, LAST(A.temp) AS peak
    ONE ROW PER MATCH
    PATTERN (A{3}) WITHIN '1h'
    DEFINE A AS temp > 50
)` // verbatim README example
	cfg, _, err := rsql.Parse(sql)
	if err != nil {
		t.Fatal(err)
	}
	if len(cfg.OrderBy) != 0 {
		t.Errorf("statement has no top-level ORDER BY, config.OrderBy=%+v", cfg.OrderBy)
	}
}

// F3b: a path segment spelled "order" after an index makes the real ORDER BY disappear.
func TestC11_F3b_OrderPathSegmentHidesOrderBy(t *testing.T) {
	ref, _, err := rsql.Parse("SELECT items[0].id AS o, a FROM s ORDER BY o DESC")
	if err != nil {
		t.Fatal(err)
	}
	got, _, err := rsql.Parse("SELECT items[0].order AS o, a FROM s ORDER BY o DESC")
	if err != nil {
		t.Fatal(err)
	}
	if !reflect.DeepEqual(ref.OrderBy, got.OrderBy) {
		t.Errorf("ORDER BY o DESC: config.OrderBy=%+v with items[0].id, %+v with items[0].order", ref.OrderBy, got.OrderBy)
	}
}

// F3c: a path segment spelled "from"/"limit" after an index is taken for the clause keyword.
func TestC11_F3c_KeywordPathSegmentAfterIndex(t *testing.T) {
	row := map[string]interface{}{"items": []interface{}{map[string]interface{}{"from": "alice", "limit": 3.0}}, "msg": map[string]interface{}{"from": "bob"}}
	// the dotted form works ...
	out := c11Sync(t, "SELECT msg.from AS f FROM s", row)
	if out[0]["f"] != "bob" {
		t.Fatalf("msg.from: %v", out[0])
	}
	// ... the indexed form does not
	for _, q := range []string{"SELECT items[0].from AS f FROM s", "SELECT items[0].limit AS f FROM s"} {
		if _, _, err := rsql.Parse(q); err != nil {
			t.Errorf("%s: %v", q, err)
		}
	}
}

// F4: a string literal select item that contains "(...)" turns the query into an aggregation.
func TestC11_F4_LiteralWithParensMakesQueryAggregate(t *testing.T) {
	cfg, _, err := rsql.Parse("SELECT a, 'f(x)' AS lit FROM s")
	if err != nil {
		t.Fatal(err)
	}
	if cfg.NeedWindow {
		t.Errorf("no aggregate, no window, no GROUP BY in the statement, yet config.NeedWindow=true (window %v %v)", cfg.WindowConfig.Type, cfg.WindowConfig.Params)
	}
	s := New()
	defer s.Stop()
	if err := s.Execute("SELECT a, 'f(x)' AS lit FROM s"); err != nil {
		t.Fatal(err)
	}
	out, err := s.EmitSync(map[string]interface{}{"a": 1.0})
	if err != nil || out["lit"] != "f(x)" {
		t.Errorf("want {a:1 lit:f(x)}, got %v err=%v", out, err)
	}
}

func TestC11_F4b_LiteralWithParensDroppedFromAggregateOutput(t *testing.T) {
	rows := []map[string]interface{}{{"d": "x", "t": 1.0}, {"d": "x", "t": 2.0}}
	ref := c11Agg(t, "SELECT d, sum(t) AS st, 'hello' AS lit FROM s GROUP BY d, CountingWindow(2)", 300*time.Millisecond, rows...)
	if len(ref) != 1 || ref[0]["lit"] != "hello" {
		t.Fatalf("reference query: %v", ref)
	}
	got := c11Agg(t, "SELECT d, sum(t) AS st, 'sum(t)' AS lit FROM s GROUP BY d, CountingWindow(2)", 300*time.Millisecond, rows...)
	if len(got) != 1 || got[0]["lit"] != "sum(t)" {
		t.Errorf("want lit='sum(t)' in the output row, got %v", got)
	}
}

// F5: TRUE/FALSE are case sensitive: upper case silently matches nothing.
func TestC11_F5_BooleanKeywordCase(t *testing.T) {
	rows := []map[string]interface{}{{"a": 1.0, "flag": true}, {"a": 2.0, "flag": false}}
	lo := c11Sync(t, "SELECT a FROM s WHERE flag = true", rows...)
	up := c11Sync(t, "SELECT a FROM s WHERE flag = TRUE", rows...)
	if !reflect.DeepEqual(lo, up) {
		t.Errorf("WHERE flag = true -> %v ; WHERE flag = TRUE -> %v", lo, up)
	}
}

// F6: whitespace around a binary minus changes the name of the output column.
func TestC11_F6_MinusLayoutChangesColumnName(t *testing.T) {
	row := map[string]interface{}{"a": 5.0}
	x := c11Sync(t, "SELECT a - 1 FROM s", row)
	y := c11Sync(t, "SELECT a-1 FROM s", row)
	if !reflect.DeepEqual(x, y) {
		t.Errorf("SELECT a - 1 -> %v ; SELECT a-1 -> %v", x, y)
	}
}

// F7: a back-quoted alias keeps its back quotes in aggregated queries (it loses them in
// non-aggregated ones), and a HAVING on it is not applied.
func TestC11_F7_BacktickAliasInAggregateQuery(t *testing.T) {
	d := c11Sync(t, "SELECT t AS `limit` FROM s", map[string]interface{}{"t": 1.0})
	if _, ok := d[0]["limit"]; !ok {
		t.Fatalf("direct query: %v", d[0])
	}
	rows := []map[string]interface{}{{"d": "x", "t": 1.0}, {"d": "x", "t": 2.0}}
	out := c11Agg(t, "SELECT d, sum(t) AS `limit` FROM s GROUP BY d, CountingWindow(2)", 300*time.Millisecond, rows...)
	if len(out) != 1 {
		t.Fatalf("got %v", out)
	}
	if _, ok := out[0]["limit"]; !ok {
		t.Errorf("alias `limit`: want output column \"limit\", got row %v", out[0])
	}
	out = c11Agg(t, "SELECT d, sum(t) AS `limit` FROM s GROUP BY d, CountingWindow(2) HAVING `limit` > 100", 300*time.Millisecond, rows...)
	if len(out) != 0 {
		t.Errorf("sum is 3, HAVING `limit` > 100 must suppress the group, got %v", out)
	}
}

func TestC11_F7b_BacktickGroupKeyWithSpace(t *testing.T) {
	cfg, _, err := rsql.Parse("SELECT `my col`, count(*) AS c FROM s GROUP BY `my col`, CountingWindow(2)")
	if err != nil {
		t.Fatal(err)
	}
	if len(cfg.GroupFields) != 1 || strings.Trim(cfg.GroupFields[0], "`") != "my col" {
		t.Errorf("GROUP BY `my col`: config.GroupFields=%q", cfg.GroupFields)
	}
}

// F8: the SQL escape for a quote inside a literal ('' ) yields NULL without any error.
func TestC11_F8_DoubledQuoteEscape(t *testing.T) {
	s := New()
	defer s.Stop()
	err := s.Execute("SELECT a, 'it''s' AS x FROM s")
	if err != nil {
		t.Logf("rejected (acceptable): %v", err)
		return
	}
	out, err := s.EmitSync(map[string]interface{}{"a": 1.0})
	if err != nil || out["x"] != "it's" {
		t.Errorf("want x=\"it's\" (or a parse error), got %v err=%v", out, err)
	}
}

// F9: an un-aliased literal containing ':' produces a second, spurious output column.
func TestC11_F9_LiteralWithColon(t *testing.T) {
	out := c11Sync(t, "SELECT 'a:b' FROM s", map[string]interface{}{"a": 5.0})
	want := map[string]interface{}{"a:b": "a:b"}
	if !reflect.DeepEqual(out[0], want) {
		t.Errorf("want %v, got %v", want, out[0])
	}
}
