// Audit of property C09 (CountingWindow emits, per key, consecutive batches of exactly N rows).
// Every test in this file FAILS on the unmodified checkout.
package auditc09

import (
	"fmt"
	"sync"
	"testing"
	"time"

	"github.com/rulego/streamsql"
)

type R = map[string]interface{}

type collector struct {
	mu  sync.Mutex
	out []R
}

func (c *collector) sink(rs []map[string]interface{}) {
	c.mu.Lock()
	c.out = append(c.out, rs...)
	c.mu.Unlock()
}
func (c *collector) snapshot() []R {
	c.mu.Lock()
	defer c.mu.Unlock()
	return append([]R(nil), c.out...)
}

// runQuery executes sql, emits rows one by one (paced, so no buffer can overflow),
// waits until `want` results arrived (or 2s), then another 200ms for surplus results.
func runQuery(t *testing.T, sql string, rows []R, want int, prep func(s *streamsql.Streamsql)) []R {
	t.Helper()
	s := streamsql.New(streamsql.WithDiscardLog())
	if err := s.Execute(sql); err != nil {
		t.Fatalf("Execute(%s): %v", sql, err)
	}
	defer s.Stop()
	if prep != nil {
		prep(s)
	}
	c := &collector{}
	s.AddSyncSink(c.sink) // sync sink: called in order by the window consumer goroutine
	for _, r := range rows {
		s.Emit(r)
		time.Sleep(2 * time.Millisecond)
	}
	deadline := time.Now().Add(2 * time.Second)
	for time.Now().Before(deadline) && len(c.snapshot()) < want {
		time.Sleep(10 * time.Millisecond)
	}
	time.Sleep(200 * time.Millisecond)
	return c.snapshot()
}

// expectBatches: results (in delivery order) must be exactly want, compared on collect(v) AS vs.
func expectBatches(t *testing.T, out []R, want [][]interface{}) {
	t.Helper()
	var got []string
	for _, o := range out {
		got = append(got, fmt.Sprint(o["vs"]))
	}
	var w []string
	for _, b := range want {
		w = append(w, fmt.Sprint(b))
	}
	if fmt.Sprint(got) != fmt.Sprint(w) {
		t.Errorf("batches (collect(v) per delivered result)\n   want %v\n   got  %v\n   full results: %v", w, got, out)
	}
}

func iv(vs ...interface{}) []interface{} { return vs }

// Finding 1a: nested-path group key. The window partitions by a flat map lookup of "d.k"
// (always NULL -> one partition), the aggregator groups by the resolved path.
func TestC09_NestedPathKey(t *testing.T) {
	rows := []R{
		{"d": R{"k": "a"}, "v": 1}, {"d": R{"k": "b"}, "v": 2}, {"d": R{"k": "a"}, "v": 3},
		{"d": R{"k": "b"}, "v": 4}, {"d": R{"k": "a"}, "v": 5},
	}
	out := runQuery(t, "SELECT d.k, collect(v) AS vs, count(*) AS c FROM stream GROUP BY d.k, CountingWindow(2)", rows, 2, nil)
	// key a: rows 1,3 (5 is trailing); key b: rows 2,4
	expectBatches(t, out, [][]interface{}{iv(1, 3), iv(2, 4)})
}

// Finding 1b: same root cause through the documented JOIN feature (GROUP BY a joined column).
func TestC09_JoinQualifiedKey(t *testing.T) {
	rows := []R{{"id": 1, "v": 1}, {"id": 2, "v": 2}, {"id": 1, "v": 3}, {"id": 2, "v": 4}, {"id": 1, "v": 5}}
	out := runQuery(t,
		"SELECT m.loc, collect(s.v) AS vs, count(*) AS c FROM stream s JOIN meta m ON s.id = m.id GROUP BY m.loc, CountingWindow(2)",
		rows, 2, func(s *streamsql.Streamsql) {
			if _, err := s.RegisterTable("meta", []map[string]interface{}{{"id": 1, "loc": "north"}, {"id": 2, "loc": "south"}}); err != nil {
				t.Fatal(err)
			}
		})
	expectBatches(t, out, [][]interface{}{iv(1, 3), iv(2, 4)})
}

// Finding 2: window key text (cast.ToString) and aggregator key text (%v) disagree for
// float64 >= 1e6 mixed with an integer of the same value (and []byte vs string).
// The window counts int 1000000 and float64 1000000 as one key (fires after 2 rows),
// the aggregator then splits that batch into two groups of 1 row each.
func TestC09_IntFloatKeyMix(t *testing.T) {
	rows := []R{{"k": 1000000, "v": 1}, {"k": 1000000.0, "v": 2}, {"k": 1000000, "v": 3}, {"k": 1000000.0, "v": 4}}
	out := runQuery(t, "SELECT k, collect(v) AS vs, count(*) AS c FROM stream GROUP BY k, CountingWindow(2)", rows, 2, nil)
	for _, o := range out {
		if vs, _ := o["vs"].([]interface{}); len(vs) != 2 {
			t.Errorf("CountingWindow(2) delivered a result built from %d row(s): %v", len(vs), o)
		}
	}
	// Either reading of "same key?" gives 2 results of 2 rows: {1,2},{3,4} (same key) or {1,3},{2,4} (distinct keys).
	if len(out) != 2 {
		t.Errorf("want 2 results, got %d: %v", len(out), out)
	}
}

// Finding 3 (deterministic form): the window goroutine runs ahead of the consumer goroutine.
// The consumer is held inside the first sink call until the window has fired all batches,
// then released. Default config (WindowOutputSize=50, overflow strategy "drop").
func TestC09_WindowRunsAheadOfConsumer(t *testing.T) {
	const total = 300
	s := streamsql.New(streamsql.WithDiscardLog())
	if err := s.Execute("SELECT k, collect(v) AS vs FROM stream GROUP BY k, CountingWindow(1)"); err != nil {
		t.Fatal(err)
	}
	defer s.Stop()
	c := &collector{}
	var once sync.Once
	s.AddSyncSink(func(rs []map[string]interface{}) {
		once.Do(func() { // consumer goroutine is "descheduled" until the window produced everything
			deadline := time.Now().Add(3 * time.Second)
			for time.Now().Before(deadline) && s.GetStats()["sentCount"] < total {
				time.Sleep(time.Millisecond)
			}
		})
		c.sink(rs)
	})
	for i := 1; i <= total; i++ { // 300 rows < DataChannelSize(1000): nothing is dropped at ingest
		s.Emit(R{"k": "a", "v": i})
	}
	time.Sleep(1500 * time.Millisecond)
	out := c.snapshot()
	st := s.GetStats()
	if st["input_dropped_count"] != 0 {
		t.Fatalf("test precondition: rows dropped at ingest")
	}
	if len(out) != total {
		t.Errorf("N=1, %d rows of key a: want %d results, got %d (window sentCount=%d droppedCount=%d)",
			total, total, len(out), st["sentCount"], st["droppedCount"])
	}
	for i, o := range out {
		if fmt.Sprint(o["vs"]) != fmt.Sprint(iv(i+1)) {
			t.Errorf("result #%d for key a aggregates %v, want row %d", i+1, o["vs"], i+1)
			break
		}
	}
}

// Finding 3 (plain form): no slow sink at all, just a burst of 900 rows (below the 1000-row
// ingest buffer). Fails on every run observed (10/10), typically 25-50% of results delivered.
func TestC09_PlainBurstLosesBatches(t *testing.T) {
	const total = 900
	s := streamsql.New(streamsql.WithDiscardLog())
	if err := s.Execute("SELECT k, collect(v) AS vs, avg(v) AS a, stddev(v) AS sd FROM stream GROUP BY k, CountingWindow(1)"); err != nil {
		t.Fatal(err)
	}
	defer s.Stop()
	c := &collector{}
	s.AddSyncSink(c.sink)
	for i := 1; i <= total; i++ {
		s.Emit(R{"k": "a", "v": i})
	}
	time.Sleep(1500 * time.Millisecond)
	st := s.GetStats()
	if st["input_dropped_count"] != 0 {
		t.Skip("rows dropped at ingest; not the scenario under test")
	}
	if n := len(c.snapshot()); n != total {
		t.Errorf("want %d results, got %d (window sentCount=%d droppedCount=%d)", total, n, st["sentCount"], st["droppedCount"])
	}
}

// Finding 4: function group key spelled in mixed case. The parser accepts Upper(k)
// (function lookup is case-insensitive), but the key is evaluated through the expr bridge,
// which only registers "upper" and "UPPER"; the error is swallowed and the key becomes NULL.
func TestC09_MixedCaseFunctionKey(t *testing.T) {
	rows := []R{{"k": "a", "v": 1}, {"k": "b", "v": 2}, {"k": "a", "v": 3}, {"k": "b", "v": 4}}
	out := runQuery(t, "SELECT collect(v) AS vs FROM stream GROUP BY Upper(k), CountingWindow(2)", rows, 2, nil)
	expectBatches(t, out, [][]interface{}{iv(1, 3), iv(2, 4)})
	// control: "GROUP BY upper(k)" and "GROUP BY UPPER(k)" both give [1 3] [2 4]
}

// Finding 5a: back-quoted column as group key: the back-quotes stay in the key text,
// so window and aggregator look up the column "`k`" (NULL for every row).
func TestC09_BacktickKey(t *testing.T) {
	rows := []R{{"k": "a", "v": 1}, {"k": "b", "v": 2}, {"k": "a", "v": 3}, {"k": "b", "v": 4}}
	out := runQuery(t, "SELECT `k`, collect(v) AS vs FROM stream GROUP BY `k`, CountingWindow(2)", rows, 2, nil)
	expectBatches(t, out, [][]interface{}{iv(1, 3), iv(2, 4)})
}

// Finding 5b: operator expression as group key is accepted but never evaluated (NULL key).
func TestC09_OperatorExprKey(t *testing.T) {
	rows := []R{{"a": 1, "b": 1, "v": 1}, {"a": 2, "b": 2, "v": 2}, {"a": 1, "b": 1, "v": 3}, {"a": 2, "b": 2, "v": 4}}
	out := runQuery(t, "SELECT collect(v) AS vs FROM stream GROUP BY a + b, CountingWindow(2)", rows, 2, nil)
	expectBatches(t, out, [][]interface{}{iv(1, 3), iv(2, 4)})
}

// Finding 6: very large N. NewCountingWindow pre-allocates a slice of capacity N
// (an unused field), so a large N panics (or, for N around 1e10, kills the process with OOM).
func TestC09_HugeN(t *testing.T) {
	defer func() {
		if r := recover(); r != nil {
			t.Errorf("Execute panicked for CountingWindow(10000000000000): %v", r)
		}
	}()
	s := streamsql.New(streamsql.WithDiscardLog())
	if err := s.Execute("SELECT k, count(*) AS c FROM stream GROUP BY k, CountingWindow(10000000000000)"); err != nil {
		t.Logf("Execute returned an error (acceptable): %v", err)
		return
	}
	s.Stop()
}

// Finding 7 (low): N written as 1e1 is silently taken as N=1 (tokens "1","e1"; only the first is used).
func TestC09_SciNotationN(t *testing.T) {
	var rows []R
	for i := 1; i <= 10; i++ {
		rows = append(rows, R{"k": "a", "v": i})
	}
	s := streamsql.New(streamsql.WithDiscardLog())
	err := s.Execute("SELECT k, collect(v) AS vs FROM stream GROUP BY k, CountingWindow(1e1)")
	if err != nil {
		return // rejecting the spelling would be fine
	}
	s.Stop()
	out := runQuery(t, "SELECT k, collect(v) AS vs FROM stream GROUP BY k, CountingWindow(1e1)", rows, 1, nil)
	expectBatches(t, out, [][]interface{}{iv(1, 2, 3, 4, 5, 6, 7, 8, 9, 10)})
}
