package c16

// Failing tests for property C16 (stream-table JOIN). Each test function is one
// distinct root cause. All go through the public API only.

import (
	"testing"

	"github.com/rulego/streamsql"
)

type M = map[string]any

func newJoin(t *testing.T, sql string, table string, rows []M, keyFields ...string) *streamsql.Streamsql {
	t.Helper()
	ssql := streamsql.New()
	t.Cleanup(ssql.Stop)
	if err := ssql.Execute(sql); err != nil {
		t.Fatalf("Execute(%q): %v", sql, err)
	}
	if _, err := ssql.RegisterTable(table, rows, keyFields...); err != nil {
		t.Fatalf("RegisterTable: %v", err)
	}
	return ssql
}

func emit(t *testing.T, s *streamsql.Streamsql, row M) M {
	t.Helper()
	got, err := s.EmitSync(row)
	if err != nil {
		t.Fatalf("EmitSync(%v): %v", row, err)
	}
	return got
}

// F1: "ON <table col> = <stream col>" (operands in the other order) is parsed
// positionally: left is always taken as the stream field, right as the table field.
func TestC16_F1_ReversedOnOperands(t *testing.T) {
	meta := []M{{"id": 1, "loc": "A"}, {"id": 2, "loc": "B"}}

	t.Run("single key", func(t *testing.T) {
		s := newJoin(t, "SELECT s.k, m.loc FROM stream s JOIN meta m ON m.id = s.k", "meta", meta)
		got := emit(t, s, M{"k": 1})
		if got == nil || got["loc"] != "A" {
			t.Errorf("k=1: got %v, want loc=A", got)
		}
		got = emit(t, s, M{"k": 2})
		if got == nil || got["loc"] != "B" {
			t.Errorf("k=2: got %v, want loc=B", got)
		}
		if got = emit(t, s, M{"k": 99}); got != nil {
			t.Errorf("k=99: got %v, want dropped (INNER, no match)", got)
		}
	})

	t.Run("composite, second pair reversed", func(t *testing.T) {
		tbl := []M{{"id": 1, "type": "t", "loc": "A"}}
		s := newJoin(t, "SELECT m.loc FROM stream s JOIN meta m ON s.a = m.id AND m.type = s.b", "meta", tbl)
		if got := emit(t, s, M{"a": 1, "b": "WRONG"}); got != nil {
			t.Errorf("a=1,b=WRONG: got %v, want dropped (second key component differs)", got)
		}
	})
}

// F2: a NULL / missing stream key "equals" a table row whose key is NULL / missing.
func TestC16_F2_NullKeyMatchesNullKey(t *testing.T) {
	meta := []M{{"id": 1, "loc": "A"}, {"id": nil, "loc": "NULLROW"}}

	t.Run("inner", func(t *testing.T) {
		s := newJoin(t, "SELECT k, m.loc FROM stream JOIN meta m ON k = m.id", "meta", meta)
		if got := emit(t, s, M{"k": nil}); got != nil {
			t.Errorf("k=NULL: got %v, want dropped (NULL = NULL is not true)", got)
		}
		if got := emit(t, s, M{"other": 1}); got != nil {
			t.Errorf("k missing: got %v, want dropped", got)
		}
	})
	t.Run("left", func(t *testing.T) {
		s := newJoin(t, "SELECT k, m.loc FROM stream LEFT JOIN meta m ON k = m.id", "meta", meta)
		got := emit(t, s, M{"k": nil})
		if got == nil || got["loc"] != nil {
			t.Errorf("k=NULL: got %v, want row kept with loc=NULL", got)
		}
	})
	t.Run("composite component", func(t *testing.T) {
		tbl := []M{{"a": 1, "b": nil, "loc": "1-NULL"}}
		s := newJoin(t, "SELECT m.loc FROM stream JOIN meta m ON a = m.a AND b = m.b", "meta", tbl)
		if got := emit(t, s, M{"a": 1}); got != nil {
			t.Errorf("a=1,b missing: got %v, want dropped", got)
		}
	})
}

// F3: integer keys above 2^53 are compared after conversion to float64, so two
// different integers match.
func TestC16_F3_LargeIntKeysCollide(t *testing.T) {
	meta := []M{{"id": int64(9007199254740993), "loc": "big"}}
	s := newJoin(t, "SELECT k, m.loc FROM stream JOIN meta m ON k = m.id", "meta", meta)
	if got := emit(t, s, M{"k": int64(9007199254740993)}); got == nil || got["loc"] != "big" {
		t.Fatalf("exact key: got %v, want loc=big", got)
	}
	if got := emit(t, s, M{"k": int64(9007199254740992)}); got != nil {
		t.Errorf("k=9007199254740992 vs table key 9007199254740993: got %v, want dropped", got)
	}
	// Upsert of a numerically different key must not overwrite the first row.
	if err := s.UpsertTable("meta", M{"id": int64(9007199254740992), "loc": "other"}); err != nil {
		t.Fatal(err)
	}
	if got := emit(t, s, M{"k": int64(9007199254740993)}); got == nil || got["loc"] != "big" {
		t.Errorf("after upsert of a different key: got %v, want loc=big", got)
	}
}

// F4: a JOIN clause the parser cannot handle is not reported; Execute succeeds
// and the query runs as if there were no JOIN at all (nothing dropped, nothing
// enriched).
func TestC16_F4_JoinParseErrorSwallowed(t *testing.T) {
	meta := []M{{"id": 1, "loc": "A"}}
	for _, sql := range []string{
		"SELECT k, m.loc FROM stream JOIN meta m ON (k = m.id)",
		"SELECT k, m.loc FROM stream JOIN meta m ON k = m.id AND m.loc = 'A'",
		"SELECT k, m.loc FROM stream JOIN `meta` m ON k = m.id",
	} {
		t.Run(sql, func(t *testing.T) {
			ssql := streamsql.New()
			defer ssql.Stop()
			if err := ssql.Execute(sql); err != nil {
				return // an error for unsupported syntax is acceptable
			}
			if _, err := ssql.RegisterTable("meta", meta, "id"); err != nil {
				t.Fatalf("RegisterTable: %v", err)
			}
			if got := emit(t, ssql, M{"k": 99}); got != nil {
				t.Errorf("Execute accepted the query but INNER JOIN did not drop unmatched k=99: got %v", got)
			}
			got := emit(t, ssql, M{"k": 1})
			if got == nil || got["loc"] != "A" {
				t.Errorf("Execute accepted the query but k=1 was not enriched: got %v, want loc=A", got)
			}
		})
	}
}

// F5: backtick-quoted column after an alias qualifier in ON (m.`id`) yields an
// empty table key field; nothing ever matches.
func TestC16_F5_BacktickQualifiedOnColumn(t *testing.T) {
	meta := []M{{"id": 1, "loc": "A"}}
	s := newJoin(t, "SELECT k, m.loc FROM stream JOIN meta m ON k = m.`id`", "meta", meta)
	if got := emit(t, s, M{"k": 1}); got == nil || got["loc"] != "A" {
		t.Errorf("k=1: got %v, want loc=A", got)
	}
}

// F6: a nested table-side key (m.profile.id) is indexed with a flat map lookup,
// so it never matches.
func TestC16_F6_NestedTableKey(t *testing.T) {
	meta := []M{{"profile": M{"id": 1}, "loc": "A"}}
	s := newJoin(t, "SELECT k, m.loc FROM stream JOIN meta m ON k = m.profile.id", "meta", meta)
	if got := emit(t, s, M{"k": 1}); got == nil || got["loc"] != "A" {
		t.Errorf("k=1: got %v, want loc=A", got)
	}
}

// F7: without a FROM alias, qualifying the stream column with the stream name
// (stream.k) is not resolved; INNER JOIN drops every row.
func TestC16_F7_StreamNameQualifier(t *testing.T) {
	meta := []M{{"id": 1, "loc": "A"}}
	s := newJoin(t, "SELECT k, meta.loc FROM stream JOIN meta ON stream.k = meta.id", "meta", meta)
	if got := emit(t, s, M{"k": 1}); got == nil || got["loc"] != "A" {
		t.Errorf("k=1: got %v, want loc=A", got)
	}
}
