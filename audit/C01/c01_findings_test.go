package streamsql

// Audit of property C01 (tumbling windows count every accepted event exactly
// once, in its own window). Every test in this file FAILS on the unmodified
// checkout. Place in the repository root (package streamsql).

import (
	"fmt"
	"sort"
	"strings"
	"sync"
	"testing"
	"time"
)

func c01f(v any) float64 {
	switch x := v.(type) {
	case float64:
		return x
	case float32:
		return float64(x)
	case int64:
		return float64(x)
	case int:
		return float64(x)
	}
	return -1
}

const c01Select = `SELECT dev, COUNT(*) AS cnt, SUM(v) AS s, window_start() AS ws, window_end() AS we FROM stream GROUP BY dev, `

// c01Collect runs sql, emits rows in order (gap between rows), waits `wait`,
// and returns every emitted result row rendered as
// "[dev start-end cnt=N sum=S]" with start/end in `unit` relative to base, sorted.
func c01Collect(t *testing.T, sql string, rows []map[string]any, gap, wait time.Duration, unit time.Duration, base int64, hook func(s *Streamsql, i int)) []string {
	t.Helper()
	ssql := New()
	defer ssql.Stop()
	if err := ssql.Execute(sql); err != nil {
		t.Fatalf("Execute(%s): %v", sql, err)
	}
	var mu sync.Mutex
	var out []string
	ssql.AddSink(func(results []map[string]any) {
		mu.Lock()
		defer mu.Unlock()
		for _, r := range results {
			ws := int64(c01f(r["ws"]))/int64(unit) - base
			we := int64(c01f(r["we"]))/int64(unit) - base
			out = append(out, fmt.Sprintf("[%v %d-%d cnt=%v sum=%v]", r["dev"], ws, we, c01f(r["cnt"]), c01f(r["s"])))
		}
	})
	for i, r := range rows {
		ssql.Emit(r)
		time.Sleep(gap)
		if hook != nil {
			hook(ssql, i)
		}
	}
	time.Sleep(wait)
	mu.Lock()
	defer mu.Unlock()
	res := append([]string(nil), out...)
	sort.Strings(res)
	return res
}

func c01Check(t *testing.T, got, want []string) {
	t.Helper()
	sort.Strings(want)
	if strings.Join(got, " ") != strings.Join(want, " ") {
		t.Errorf("emitted windows differ\n   got: %v\n  want: %v", got, want)
	}
}

// F1. An event that is NOT late (within MAXOUTOFORDERNESS of the largest
// timestamp seen) but lies in an interval before the interval of the very first
// event is never emitted: currentSlot is initialised from the first event and
// only ever moves forward.
func TestC01_F1_EventEarlierThanFirstNeverEmitted(t *testing.T) {
	base := (time.Now().UnixMilli() - 3600_000) / 10000 * 10000
	rows := []map[string]any{
		{"dev": "a", "ts": base + 5500, "v": 1.0}, // first event -> slot [5000,6000)
		{"dev": "a", "ts": base + 4900, "v": 2.0}, // 600ms earlier, watermark is 3500 -> not late
		{"dev": "a", "ts": base + 5600, "v": 4.0},
		{"dev": "a", "ts": base + 9000, "v": 8.0}, // watermark -> 7000, closes [4000,5000) and [5000,6000)
	}
	got := c01Collect(t, c01Select+`TumblingWindow('1s') WITH (TIMESTAMP='ts', TIMEUNIT='ms', MAXOUTOFORDERNESS='2s')`,
		rows, 10*time.Millisecond, 1500*time.Millisecond, time.Millisecond, base, nil)
	c01Check(t, got, []string{
		"[a 4000-5000 cnt=1 sum=2]",
		"[a 5000-6000 cnt=2 sum=5]",
	})
}

// F2. Processing time: after the documented "explicit flush hook"
// Streamsql.TriggerWindow() (= Window.Trigger(), the same function the trigger
// goroutine calls) fires in the middle of an interval, every further row of
// that same interval is silently discarded - it is in no emitted result.
func TestC01_F2_ProcessingTimeTriggerInsideIntervalLosesRows(t *testing.T) {
	ssql := New()
	defer ssql.Stop()
	if err := ssql.Execute(c01Select + `TumblingWindow('1s')`); err != nil {
		t.Fatal(err)
	}
	var mu sync.Mutex
	var out []map[string]any
	ssql.AddSink(func(results []map[string]any) {
		mu.Lock()
		defer mu.Unlock()
		out = append(out, results...)
	})
	// go to 50ms after the start of a wall-clock second so that all three rows
	// and the manual trigger fall into the same aligned interval [k*1s,(k+1)*1s)
	now := time.Now()
	time.Sleep(now.Truncate(time.Second).Add(time.Second + 50*time.Millisecond).Sub(now))
	ssql.Emit(map[string]any{"dev": "a", "v": 1.0})
	time.Sleep(100 * time.Millisecond)
	ssql.TriggerWindow()
	time.Sleep(100 * time.Millisecond)
	ssql.Emit(map[string]any{"dev": "a", "v": 2.0})
	ssql.Emit(map[string]any{"dev": "a", "v": 4.0})
	time.Sleep(3200 * time.Millisecond) // three more timer ticks
	mu.Lock()
	defer mu.Unlock()
	cnt, sum := 0.0, 0.0
	for _, r := range out {
		cnt += c01f(r["cnt"])
		sum += c01f(r["s"])
	}
	if cnt != 3 || sum != 7 {
		t.Errorf("3 rows (v=1,2,4) were ingested in processing time; emitted results account for cnt=%v sum=%v (want 3 / 7): %v", cnt, sum, out)
	}
}

// F3. TIMEUNIT='mi' (also 'hh', 'dd') is accepted by the parser but the
// timestamp conversion has no case for it and treats the number as SECONDS, so
// rows are placed in the wrong interval.
func TestC01_F3_TimeUnitMinutesTreatedAsSeconds(t *testing.T) {
	baseMin := (time.Now().Unix()/60 - 600) / 60 * 60 // whole hour, ~10h ago, in minutes since epoch
	rows := []map[string]any{
		{"dev": "a", "ts": baseMin + 10, "v": 1.0},
		{"dev": "a", "ts": baseMin + 70, "v": 2.0},
		{"dev": "a", "ts": baseMin + 130, "v": 4.0},
		{"dev": "a", "ts": baseMin + 250, "v": 8.0},
	}
	got := c01Collect(t, c01Select+`TumblingWindow('1h') WITH (TIMESTAMP='ts', TIMEUNIT='mi')`,
		rows, 10*time.Millisecond, 1500*time.Millisecond, time.Minute, baseMin, nil)
	c01Check(t, got, []string{
		"[a 0-60 cnt=1 sum=1]",
		"[a 60-120 cnt=1 sum=2]",
		"[a 120-180 cnt=1 sum=4]",
	})
}

// F4. A float64 timestamp in seconds (TIMEUNIT='ss', e.g. 1700000000.6) loses
// its fraction (cast.ToInt64E), so with a sub-second window the row is counted
// in a different interval than the one that contains its timestamp.
func TestC01_F4_FractionalSecondTimestampTruncated(t *testing.T) {
	baseS := (time.Now().Unix() - 7200) / 3600 * 3600
	rows := []map[string]any{
		{"dev": "a", "ts": float64(baseS) + 0.1, "v": 1.0},
		{"dev": "a", "ts": float64(baseS) + 0.6, "v": 2.0},
		{"dev": "a", "ts": float64(baseS) + 1.2, "v": 4.0},
		{"dev": "a", "ts": float64(baseS) + 10, "v": 8.0},
	}
	got := c01Collect(t, c01Select+`TumblingWindow('500ms') WITH (TIMESTAMP='ts', TIMEUNIT='ss')`,
		rows, 10*time.Millisecond, 1500*time.Millisecond, time.Millisecond, baseS*1000, nil)
	c01Check(t, got, []string{
		"[a 0-500 cnt=1 sum=1]",
		"[a 500-1000 cnt=1 sum=2]",
		"[a 1000-1500 cnt=1 sum=4]",
	})
}

// F5. Pre-epoch (negative) timestamps: alignWindowStart uses Go integer division
// (truncation toward zero) so the first slot does not even contain the first
// event; that event is never emitted.
func TestC01_F5_NegativeTimestampMisaligned(t *testing.T) {
	rows := []map[string]any{
		{"dev": "a", "ts": int64(-1500), "v": 1.0},
		{"dev": "a", "ts": int64(-500), "v": 2.0},
		{"dev": "a", "ts": int64(500), "v": 4.0},
		{"dev": "a", "ts": int64(5000), "v": 8.0},
	}
	got := c01Collect(t, c01Select+`TumblingWindow('1s') WITH (TIMESTAMP='ts', TIMEUNIT='ms')`,
		rows, 10*time.Millisecond, 1500*time.Millisecond, time.Millisecond, 0, nil)
	c01Check(t, got, []string{
		"[a -2000--1000 cnt=1 sum=1]",
		"[a -1000-0 cnt=1 sum=2]",
		"[a 0-1000 cnt=1 sum=4]",
	})
}

// F6. A numeric window size with a fraction (TumblingWindow(1.5), documented as
// seconds) is silently truncated to 1s: windows are [k*1s,(k+1)*1s) instead of
// [k*1.5s,(k+1)*1.5s).
func TestC01_F6_FractionalNumericSizeTruncated(t *testing.T) {
	base := (time.Now().UnixMilli() - 3600_000) / 60000 * 60000
	var rows []map[string]any
	for i := 0; i < 12; i++ { // 0,250,...,2750
		rows = append(rows, map[string]any{"dev": "a", "ts": base + int64(i*250), "v": 1.0})
	}
	rows = append(rows, map[string]any{"dev": "a", "ts": base + 60000, "v": 1.0})
	got := c01Collect(t, c01Select+`TumblingWindow(1.5) WITH (TIMESTAMP='ts', TIMEUNIT='ms')`,
		rows, 2*time.Millisecond, 1500*time.Millisecond, time.Millisecond, base, nil)
	c01Check(t, got, []string{
		"[a 0-1500 cnt=6 sum=6]",
		"[a 1500-3000 cnt=6 sum=6]",
	})
}

// F7 (observation). window/factory.go:138 tells users to declare
// TIMEUNIT='ms'|'s'|'us'|'ns', but the parser only knows dd/hh/mi/ss/ms/ns and
// silently maps anything else (including 's' and 'us') to milliseconds.
func TestC01_F7_TimeUnitSpellingSSilentlyMilliseconds(t *testing.T) {
	baseS := (time.Now().Unix() - 7200) / 3600 * 3600
	rows := []map[string]any{
		{"dev": "a", "ts": baseS + 1, "v": 1.0},
		{"dev": "a", "ts": baseS + 11, "v": 2.0},
		{"dev": "a", "ts": baseS + 21, "v": 4.0},
		{"dev": "a", "ts": baseS + 100, "v": 8.0},
	}
	got := c01Collect(t, c01Select+`TumblingWindow('10s') WITH (TIMESTAMP='ts', TIMEUNIT='s')`,
		rows, 10*time.Millisecond, 1500*time.Millisecond, time.Second, baseS, nil)
	c01Check(t, got, []string{
		"[a 0-10 cnt=1 sum=1]",
		"[a 10-20 cnt=1 sum=2]",
		"[a 20-30 cnt=1 sum=4]",
	})
}
