package streamsql

import (
	"fmt"
	"testing"
	"time"
)

func TestC01ManyPending(t *testing.T) {
	base := (time.Now().UnixMilli() - 6*3600_000) / 10000 * 10000
	var rows []map[string]any
	n := 5000
	for i := 0; i < n; i++ {
		rows = append(rows, map[string]any{"dev": "a", "ts": base + int64(i*1000), "v": 1.0})
	}
	rows = append(rows, map[string]any{"dev": "zz", "ts": base + int64(n*1000) + 3*3600_000, "v": 1.0})
	got := c01RunRaw(t, c01Sel+`TumblingWindow('1s') WITH (TIMESTAMP='ts', TIMEUNIT='ms', MAXOUTOFORDERNESS='2h')`, rows, 0, 3000*time.Millisecond, nil)
	total := 0.0
	for _, r := range got {
		total += c01num(r["cnt"])
	}
	t.Logf("total=%v nres=%d", total, len(got))
	if total != float64(n) {
		t.Errorf("total=%v want %d", total, n)
	}
}

func TestC01NoGroup(t *testing.T) {
	base := (time.Now().UnixMilli() - 3600_000) / 10000 * 10000
	rows := []map[string]any{
		{"ts": base + 1, "v": 1.0}, {"ts": base + 999, "v": 2.0}, {"ts": base + 1000, "v": 4.0}, {"ts": base + 3000, "v": 8.0},
	}
	got := c01RunRaw(t, `SELECT COUNT(*) AS cnt, SUM(v) AS s, window_start() AS ws, window_end() AS we FROM stream GROUP BY TumblingWindow('1s') WITH (TIMESTAMP='ts', TIMEUNIT='ms')`, rows, 5*time.Millisecond, 1200*time.Millisecond, nil)
	t.Logf("%s", c01Fmt(got, 1e6, base))
}

func TestC01AllowedLateness(t *testing.T) {
	base := (time.Now().UnixMilli() - 3600_000) / 10000 * 10000
	offs := []int64{100, 200, 1500, 300, 2500, 400, 1600, 9000}
	var rows []map[string]any
	for i, o := range offs {
		rows = append(rows, map[string]any{"dev": "a", "ts": base + o, "v": float64(int(1) << i)})
	}
	got := c01RunRaw(t, c01Sel+`TumblingWindow('1s') WITH (TIMESTAMP='ts', TIMEUNIT='ms', ALLOWEDLATENESS='5s')`, rows, 30*time.Millisecond, 1200*time.Millisecond, nil)
	for _, r := range got {
		t.Logf("%s", c01Fmt([]map[string]any{r}, 1e6, base))
	}
}

func TestC01WindowFirstInGroupBy(t *testing.T) {
	base := (time.Now().UnixMilli() - 3600_000) / 10000 * 10000
	rows := []map[string]any{
		{"dev": "a", "ts": base + 1, "v": 1.0}, {"dev": "b", "ts": base + 999, "v": 2.0}, {"dev": "a", "ts": base + 1000, "v": 4.0}, {"dev": "a", "ts": base + 3000, "v": 8.0},
	}
	for _, q := range []string{
		`SELECT dev, COUNT(*) AS cnt, SUM(v) AS s, window_start() AS ws, window_end() AS we FROM stream GROUP BY TumblingWindow('1s'), dev WITH (TIMESTAMP='ts', TIMEUNIT='ms')`,
		`SELECT dev, COUNT(*) AS cnt, SUM(v) AS s, window_start() AS ws, window_end() AS we FROM stream GROUP BY dev, tumblingwindow('1000ms') WITH (TIMESTAMP='ts', TIMEUNIT='ms')`,
		`SELECT dev, COUNT(*) AS cnt, SUM(v) AS s, window_start() AS ws, window_end() AS we FROM stream GROUP BY dev, TUMBLINGWINDOW('1s') WITH (TIMEUNIT='ms', TIMESTAMP='ts', MAXOUTOFORDERNESS='0s')`,
		`SELECT dev, COUNT(*) AS cnt, SUM(v) AS s, window_start() AS ws, window_end() AS we FROM stream GROUP BY dev, TumblingWindow('0.001m') WITH (TIMESTAMP='ts', TIMEUNIT='ms')`,
	} {
		ssql := New(WithDiscardLog())
		if err := ssql.Execute(q); err != nil {
			t.Logf("ERR %v for %s", err, q)
			continue
		}
		ssql.Stop()
		got := c01RunRaw(t, q, rows, 5*time.Millisecond, 1200*time.Millisecond, nil)
		t.Logf("%s", c01Fmt(got, 1e6, base))
	}
	_ = fmt.Sprint
}
