package streamsql

import (
	"fmt"
	"sort"
	"sync"
	"testing"
	"time"
)

func c01RunRaw(t *testing.T, sql string, rows []map[string]any, gap, wait time.Duration, hook func(s *Streamsql, i int)) []map[string]any {
	t.Helper()
	ssql := New(WithDiscardLog())
	defer ssql.Stop()
	if err := ssql.Execute(sql); err != nil {
		t.Fatalf("execute: %v", err)
	}
	var mu sync.Mutex
	var out []map[string]any
	ssql.AddSink(func(results []map[string]any) {
		mu.Lock()
		defer mu.Unlock()
		out = append(out, results...)
	})
	for i, r := range rows {
		ssql.Emit(r)
		if gap > 0 {
			time.Sleep(gap)
		}
		if hook != nil {
			hook(ssql, i)
		}
	}
	time.Sleep(wait)
	mu.Lock()
	defer mu.Unlock()
	return append([]map[string]any(nil), out...)
}

func c01Fmt(rs []map[string]any, div int64, base int64) string {
	var ss []string
	for _, r := range rs {
		ss = append(ss, fmt.Sprintf("[%v %d-%d cnt=%v sum=%v]", r["dev"], int64(c01num(r["ws"]))/div-base, int64(c01num(r["we"]))/div-base, r["cnt"], r["s"]))
	}
	sort.Strings(ss)
	return fmt.Sprint(ss)
}

const c01Sel = `SELECT dev, COUNT(*) AS cnt, SUM(v) AS s, window_start() AS ws, window_end() AS we FROM stream GROUP BY dev, `

func TestC01MultiGroup(t *testing.T) {
	base := (time.Now().UnixMilli() - 3600_000) / 10000 * 10000
	var rows []map[string]any
	for i := 0; i < 300; i++ {
		rows = append(rows, map[string]any{"dev": fmt.Sprintf("d%d", i%7), "ts": base + int64(i*37), "v": 1.0})
	}
	rows = append(rows, map[string]any{"dev": "zz", "ts": base + 60000, "v": 1.0})
	got := c01RunRaw(t, c01Sel+`TumblingWindow('1s') WITH (TIMESTAMP='ts', TIMEUNIT='ms', MAXOUTOFORDERNESS='100ms')`, rows, 0, 1500*time.Millisecond, nil)
	total := 0.0
	seen := map[string]bool{}
	for _, r := range got {
		total += c01num(r["cnt"])
		k := fmt.Sprintf("%v/%v", r["dev"], r["ws"])
		if seen[k] {
			t.Errorf("dup %s", k)
		}
		seen[k] = true
	}
	t.Logf("total=%v nres=%d", total, len(got))
	if total != 300 {
		t.Errorf("total=%v want 300: %s", total, c01Fmt(got, 1e6, base))
	}
}

func TestC01NegativeTs(t *testing.T) {
	rows := []map[string]any{
		{"dev": "a", "ts": int64(-1500), "v": 1.0},
		{"dev": "a", "ts": int64(-500), "v": 2.0},
		{"dev": "a", "ts": int64(500), "v": 3.0},
		{"dev": "a", "ts": int64(5000), "v": 4.0},
	}
	got := c01RunRaw(t, c01Sel+`TumblingWindow('1s') WITH (TIMESTAMP='ts', TIMEUNIT='ms')`, rows, 5*time.Millisecond, 1500*time.Millisecond, nil)
	t.Logf("got %s", c01Fmt(got, 1e6, 0))
}

func TestC01Units(t *testing.T) {
	nowS := time.Now().Unix() - 7200
	baseS := nowS / 3600 * 3600
	cases := []struct {
		name, sql string
		rows      []map[string]any
		div       int64
	}{
		{"ss-float", c01Sel + `TumblingWindow('500ms') WITH (TIMESTAMP='ts', TIMEUNIT='ss')`, []map[string]any{
			{"dev": "a", "ts": float64(baseS) + 0.1, "v": 1.0}, {"dev": "a", "ts": float64(baseS) + 0.6, "v": 2.0}, {"dev": "a", "ts": float64(baseS) + 1.2, "v": 3.0}, {"dev": "a", "ts": float64(baseS) + 10, "v": 4.0}}, 1e6},
		{"mi", c01Sel + `TumblingWindow('1h') WITH (TIMESTAMP='ts', TIMEUNIT='mi')`, []map[string]any{
			{"dev": "a", "ts": baseS/60 + 10, "v": 1.0}, {"dev": "a", "ts": baseS/60 + 70, "v": 2.0}, {"dev": "a", "ts": baseS/60 + 130, "v": 3.0}}, 1e9},
		{"s", c01Sel + `TumblingWindow('10s') WITH (TIMESTAMP='ts', TIMEUNIT='s')`, []map[string]any{
			{"dev": "a", "ts": baseS + 1, "v": 1.0}, {"dev": "a", "ts": baseS + 11, "v": 2.0}, {"dev": "a", "ts": baseS + 21, "v": 3.0}, {"dev": "a", "ts": baseS + 100, "v": 3.0}}, 1e9},
		{"us", c01Sel + `TumblingWindow('1s') WITH (TIMESTAMP='ts', TIMEUNIT='us')`, []map[string]any{
			{"dev": "a", "ts": baseS*1e6 + 1, "v": 1.0}, {"dev": "a", "ts": baseS*1e6 + 1_100_000, "v": 2.0}, {"dev": "a", "ts": baseS*1e6 + 2_100_000, "v": 3.0}, {"dev": "a", "ts": baseS*1e6 + 10_000_000, "v": 3.0}}, 1e9},
		{"float-ms", c01Sel + `TumblingWindow('1s') WITH (TIMESTAMP='ts', TIMEUNIT='ms')`, []map[string]any{
			{"dev": "a", "ts": float64(baseS*1000 + 1), "v": 1.0}, {"dev": "a", "ts": float64(baseS*1000 + 1100), "v": 2.0}, {"dev": "a", "ts": float64(baseS*1000 + 5000), "v": 3.0}}, 1e9},
		{"string-ms", c01Sel + `TumblingWindow('1s') WITH (TIMESTAMP='ts', TIMEUNIT='ms')`, []map[string]any{
			{"dev": "a", "ts": fmt.Sprint(baseS*1000 + 1), "v": 1.0}, {"dev": "a", "ts": fmt.Sprint(baseS*1000 + 1100), "v": 2.0}, {"dev": "a", "ts": fmt.Sprint(baseS*1000 + 5000), "v": 3.0}}, 1e9},
		{"time.Time", c01Sel + `TumblingWindow('1s') WITH (TIMESTAMP='ts')`, []map[string]any{
			{"dev": "a", "ts": time.Unix(baseS, 1e6), "v": 1.0}, {"dev": "a", "ts": time.Unix(baseS+1, 1e8), "v": 2.0}, {"dev": "a", "ts": time.Unix(baseS+5, 0), "v": 3.0}}, 1e9},
		{"ns", c01Sel + `TumblingWindow('1s') WITH (TIMESTAMP='ts', TIMEUNIT='ns')`, []map[string]any{
			{"dev": "a", "ts": baseS*1e9 + 1, "v": 1.0}, {"dev": "a", "ts": baseS*1e9 + 1_100_000_000, "v": 2.0}, {"dev": "a", "ts": baseS*1e9 + 5_000_000_000, "v": 3.0}}, 1e9},
	}
	for _, c := range cases {
		c := c
		t.Run(c.name, func(t *testing.T) {
			t.Parallel()
			got := c01RunRaw(t, c.sql, c.rows, 5*time.Millisecond, 1200*time.Millisecond, nil)
			b := baseS
			if c.div == 1e6 {
				b = baseS * 1000
			}
			t.Logf("%s: %s", c.name, c01Fmt(got, c.div, b))
		})
	}
}

// processing time: each row its own group so we learn which window it got
func TestC01ProcTime(t *testing.T) {
	ssql := New(WithDiscardLog())
	defer ssql.Stop()
	if err := ssql.Execute(c01Sel + `TumblingWindow('200ms')`); err != nil {
		t.Fatal(err)
	}
	var mu sync.Mutex
	var out []map[string]any
	ssql.AddSink(func(results []map[string]any) {
		mu.Lock()
		defer mu.Unlock()
		out = append(out, results...)
	})
	n := 400
	before := make([]int64, n)
	for i := 0; i < n; i++ {
		before[i] = time.Now().UnixNano()
		ssql.Emit(map[string]any{"dev": fmt.Sprint(i), "v": 1.0})
		time.Sleep(3 * time.Millisecond)
	}
	time.Sleep(700 * time.Millisecond)
	mu.Lock()
	defer mu.Unlock()
	seen := map[string]int{}
	for _, r := range out {
		d := fmt.Sprint(r["dev"])
		seen[d]++
		ws, we := int64(c01num(r["ws"])), int64(c01num(r["we"]))
		var i int
		fmt.Sscan(d, &i)
		if we-ws != 200e6 || ws%200e6 != 0 {
			t.Errorf("bad window %d-%d", ws, we)
		}
		if we <= before[i] {
			t.Errorf("row %d emitted at %d but window ended %d", i, before[i], we)
		}
		if ws > before[i]+50e6 {
			t.Errorf("row %d emitted at %d but window starts %d", i, before[i], ws)
		}
		if c01num(r["cnt"]) != 1 {
			t.Errorf("cnt %v", r["cnt"])
		}
	}
	for i := 0; i < n; i++ {
		if seen[fmt.Sprint(i)] != 1 {
			t.Errorf("row %d seen %d times", i, seen[fmt.Sprint(i)])
		}
	}
}

// processing time with manual TriggerWindow flush
func TestC01ProcTimeManualTrigger(t *testing.T) {
	ssql := New(WithDiscardLog())
	defer ssql.Stop()
	if err := ssql.Execute(c01Sel + `TumblingWindow('1s')`); err != nil {
		t.Fatal(err)
	}
	var mu sync.Mutex
	var out []map[string]any
	ssql.AddSink(func(results []map[string]any) {
		mu.Lock()
		defer mu.Unlock()
		out = append(out, results...)
	})
	// wait until start of a fresh second
	now := time.Now()
	time.Sleep(now.Truncate(time.Second).Add(time.Second + 50*time.Millisecond).Sub(now))
	ssql.Emit(map[string]any{"dev": "a", "v": 1.0})
	time.Sleep(100 * time.Millisecond)
	ssql.TriggerWindow()
	time.Sleep(100 * time.Millisecond)
	ssql.Emit(map[string]any{"dev": "a", "v": 2.0})
	ssql.Emit(map[string]any{"dev": "a", "v": 4.0})
	time.Sleep(3 * time.Second)
	mu.Lock()
	defer mu.Unlock()
	total := 0.0
	for _, r := range out {
		total += c01num(r["s"])
	}
	t.Logf("out=%v", out)
	if total != 7 {
		t.Errorf("sum total=%v want 7", total)
	}
}
