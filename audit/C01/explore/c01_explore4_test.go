package streamsql

import (
	"sync"
	"testing"
	"time"
)

func TestC01ManyPending2(t *testing.T) {
	base := (time.Now().UnixMilli() - 6*3600_000) / 10000 * 10000
	n := 5000
	ssql := New(WithDiscardLog())
	defer ssql.Stop()
	if err := ssql.Execute(c01Sel + `TumblingWindow('1s') WITH (TIMESTAMP='ts', TIMEUNIT='ms', MAXOUTOFORDERNESS='2h')`); err != nil {
		t.Fatal(err)
	}
	var mu sync.Mutex
	total := 0.0
	seen := map[int64]bool{}
	ssql.AddSink(func(results []map[string]any) {
		mu.Lock()
		defer mu.Unlock()
		for _, r := range results {
			total += c01num(r["cnt"])
			seen[(int64(c01num(r["ws"]))/1e6-base)/1000] = true
		}
	})
	for i := 0; i < n; i++ {
		ssql.Emit(map[string]any{"dev": "a", "ts": base + int64(i*1000), "v": 1.0})
		if false {
			time.Sleep(time.Millisecond)
		}
	}
	time.Sleep(0)
	t.Logf("stats before jump %v", ssql.GetStats())
	ssql.Emit(map[string]any{"dev": "zz", "ts": base + int64(n*1000) + 3*3600_000, "v": 1.0})
	time.Sleep(3 * time.Second)
	t.Logf("stats after %v", ssql.GetStats())
	mu.Lock()
	defer mu.Unlock()
	var missing []int64
	for i := int64(0); i < int64(n); i++ {
		if !seen[i] {
			missing = append(missing, i)
		}
	}
	t.Logf("total=%v missing=%v", total, missing)
	if total != float64(n) {
		t.Errorf("total=%v want %d", total, n)
	}
}
