package streamsql

import (
	"fmt"
	"sort"
	"sync"
	"testing"
	"time"
)

type c01Row struct {
	ts  int64
	dev string
	v   float64
}

type c01Res struct {
	dev        string
	start, end int64 // ms
	cnt        float64
	sum        float64
}

func c01num(v any) float64 {
	switch x := v.(type) {
	case float64:
		return x
	case int64:
		return float64(x)
	case int:
		return float64(x)
	}
	return -1
}

// run an event-time query; rows emitted in order with gap; returns results.
func c01Run(t *testing.T, with string, size string, rows []c01Row, gap time.Duration, wait time.Duration) []c01Res {
	t.Helper()
	ssql := New(WithDiscardLog())
	defer ssql.Stop()
	sql := fmt.Sprintf(`SELECT dev, COUNT(*) AS cnt, SUM(v) AS s, window_start() AS ws, window_end() AS we FROM stream GROUP BY dev, TumblingWindow('%s') %s`, size, with)
	if err := ssql.Execute(sql); err != nil {
		t.Fatalf("execute: %v", err)
	}
	var mu sync.Mutex
	var out []c01Res
	ssql.AddSink(func(results []map[string]any) {
		mu.Lock()
		defer mu.Unlock()
		for _, r := range results {
			out = append(out, c01Res{
				dev:   fmt.Sprint(r["dev"]),
				start: int64(c01num(r["ws"])) / 1e6,
				end:   int64(c01num(r["we"])) / 1e6,
				cnt:   c01num(r["cnt"]),
				sum:   c01num(r["s"]),
			})
		}
	})
	for _, r := range rows {
		ssql.Emit(map[string]any{"dev": r.dev, "ts": r.ts, "v": r.v})
		if gap > 0 {
			time.Sleep(gap)
		}
	}
	time.Sleep(wait)
	mu.Lock()
	defer mu.Unlock()
	res := append([]c01Res(nil), out...)
	sort.SliceStable(res, func(i, j int) bool {
		if res[i].start != res[j].start {
			return res[i].start < res[j].start
		}
		return res[i].dev < res[j].dev
	})
	return res
}

// expected per property: rows not late (ts >= maxSeen - ooo) counted in [k*size,(k+1)*size)
// only windows whose end <= final watermark are expected (others are still open).
func c01Expect(rows []c01Row, sizeMs, oooMs int64) []c01Res {
	type key struct {
		dev string
		st  int64
	}
	m := map[key]*c01Res{}
	var max int64 = -1 << 62
	for _, r := range rows {
		if r.ts > max {
			max = r.ts
		}
		if r.ts < max-oooMs {
			continue
		}
		st := (r.ts / sizeMs) * sizeMs
		k := key{r.dev, st}
		if m[k] == nil {
			m[k] = &c01Res{dev: r.dev, start: st, end: st + sizeMs}
		}
		m[k].cnt++
		m[k].sum += r.v
	}
	wm := max - oooMs
	var res []c01Res
	for _, v := range m {
		if v.end <= wm {
			res = append(res, *v)
		}
	}
	sort.SliceStable(res, func(i, j int) bool {
		if res[i].start != res[j].start {
			return res[i].start < res[j].start
		}
		return res[i].dev < res[j].dev
	})
	return res
}

func TestC01Explore(t *testing.T) {
	base := (time.Now().UnixMilli() - 3600_000) / 10000 * 10000
	mk := func(offs ...int64) []c01Row {
		var rs []c01Row
		for i, o := range offs {
			rs = append(rs, c01Row{ts: base + o, dev: "a", v: float64(i + 1)})
		}
		return rs
	}
	cases := []struct {
		name   string
		with   string
		size   string
		sizeMs int64
		ooo    int64
		rows   []c01Row
	}{
		{"inorder", `WITH (TIMESTAMP='ts', TIMEUNIT='ms')`, "1s", 1000, 0, mk(0, 100, 999, 1000, 1500, 2000, 2999, 3000, 5000)},
		{"boundary", `WITH (TIMESTAMP='ts', TIMEUNIT='ms')`, "1s", 1000, 0, mk(1000, 2000, 3000, 4000)},
		{"dups", `WITH (TIMESTAMP='ts', TIMEUNIT='ms')`, "1s", 1000, 0, mk(100, 100, 100, 1000, 1000, 2000, 2000, 3000)},
		{"jitter", `WITH (TIMESTAMP='ts', TIMEUNIT='ms', MAXOUTOFORDERNESS='2s')`, "1s", 1000, 2000, mk(500, 1500, 700, 2500, 900, 1600, 3500, 1700, 4500, 2600, 9000)},
		{"earlier-than-first", `WITH (TIMESTAMP='ts', TIMEUNIT='ms', MAXOUTOFORDERNESS='5s')`, "1s", 1000, 5000, mk(5500, 3500, 2500, 5600, 6500, 20000)},
		{"earlier-same-window-start", `WITH (TIMESTAMP='ts', TIMEUNIT='ms', MAXOUTOFORDERNESS='5s')`, "1s", 1000, 5000, mk(5500, 5100, 4999, 20000)},
		{"bigjump", `WITH (TIMESTAMP='ts', TIMEUNIT='ms')`, "1s", 1000, 0, mk(100, 600100, 600200, 601000)},
		{"size7", `WITH (TIMESTAMP='ts', TIMEUNIT='ms', MAXOUTOFORDERNESS='1s')`, "7s", 7000, 1000, mk(0, 6999, 7000, 13999, 6500, 14000, 30000)},
		{"size300ms", `WITH (TIMESTAMP='ts', TIMEUNIT='ms')`, "300ms", 300, 0, mk(0, 299, 300, 599, 600, 900, 1200, 5000)},
	}
	for _, c := range cases {
		c := c
		t.Run(c.name, func(t *testing.T) {
			t.Parallel()
			got := c01Run(t, c.with, c.size, c.rows, 5*time.Millisecond, 1500*time.Millisecond)
			exp := c01Expect(c.rows, c.sizeMs, c.ooo)
			rel := func(rs []c01Res) string {
				s := ""
				for _, r := range rs {
					s += fmt.Sprintf("[%s %d-%d cnt=%v sum=%v] ", r.dev, r.start-base, r.end-base, r.cnt, r.sum)
				}
				return s
			}
			g, e := rel(got), rel(exp)
			if g != e {
				t.Errorf("MISMATCH\n got: %s\n exp: %s", g, e)
			} else {
				t.Logf("ok: %s", g)
			}
		})
	}
}
