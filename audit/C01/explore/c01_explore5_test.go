package streamsql

import (
	"testing"
	"time"
)

func TestC01SizeSpellings(t *testing.T) {
	base := (time.Now().UnixMilli() - 3600_000) / 60000 * 60000
	var rows []map[string]any
	for i := 0; i < 40; i++ {
		rows = append(rows, map[string]any{"dev": "a", "ts": base + int64(i*250), "v": 1.0})
	}
	rows = append(rows, map[string]any{"dev": "a", "ts": base + 600000, "v": 1.0})
	for _, w := range []string{`TumblingWindow(2)`, `TumblingWindow(1.5)`, `TumblingWindow('1.5')`, `TumblingWindow('1.5s')`, `TumblingWindow(1s)`, `TumblingWindow("1s")`, `TumblingWindow('1500ms')`, `TumblingWindow('1s500ms')`, `TumblingWindow( '2s' )`, `TumblingWindow('1S')`, "TumblingWindow(`1s`)"} {
		q := c01Sel + w + ` WITH (TIMESTAMP='ts', TIMEUNIT='ms')`
		ssql := New(WithDiscardLog())
		err := ssql.Execute(q)
		ssql.Stop()
		if err != nil {
			t.Logf("%-28s ERR %v", w, err)
			continue
		}
		got := c01RunRaw(t, q, rows, 0, 800*time.Millisecond, nil)
		t.Logf("%-28s %s", w, c01Fmt(got, 1e6, base))
	}
}
