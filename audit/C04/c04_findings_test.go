package streamsql

// Audit of property C04 (GROUP BY partitions each window's rows by the grouping
// key tuple). One test function per finding; every test FAILS on the unmodified
// checkout. All tests use an event-time tumbling window so that all input rows
// land deterministically in one window/batch (a final "flush" row far in the
// future advances the watermark and closes the window).

import (
	"fmt"
	"math"
	"sort"
	"strings"
	"sync"
	"testing"
	"time"
)

type c04Group struct {
	key []any // expected key tuple, in the order of outCols
	cnt int   // expected COUNT(*)
}

func c04Tuple(t []any) string {
	parts := make([]string, len(t))
	for i, v := range t {
		switch x := v.(type) {
		case nil:
			parts[i] = "NULL"
		case float64:
			if x == 0 { // +0 and -0 are the same SQL value
				x = 0
			}
			parts[i] = fmt.Sprintf("num:%v", x)
		case int:
			parts[i] = fmt.Sprintf("num:%v", x)
		case string:
			parts[i] = fmt.Sprintf("str:%q", x)
		default:
			parts[i] = fmt.Sprintf("%T:%v", v, v)
		}
	}
	return "(" + strings.Join(parts, ", ") + ")"
}

// c04RunOneWindow executes sql (which must contain the literal
// "TumblingWindow('1s')" and no WITH clause), feeds rows into a single event-time
// window and returns the first emitted batch.
func c04RunOneWindow(t *testing.T, sql string, rows []map[string]any) []map[string]any {
	t.Helper()
	s := New()
	defer s.Stop()
	if err := s.Execute(sql + " WITH (TIMESTAMP='ts', TIMEUNIT='ms')"); err != nil {
		t.Fatalf("Execute(%q) failed: %v", sql, err)
	}
	var mu sync.Mutex
	var batches [][]map[string]any
	s.AddSink(func(r []map[string]any) {
		mu.Lock()
		batches = append(batches, r)
		mu.Unlock()
	})
	base := int64(1700000000000) // aligned to a 1s boundary
	for i, r := range rows {
		rr := map[string]any{"ts": base + int64(i)}
		for k, v := range r {
			rr[k] = v
		}
		s.Emit(rr)
	}
	s.Emit(map[string]any{"ts": base + 10000}) // flush row: next window, closes the first
	deadline := time.Now().Add(5 * time.Second)
	for time.Now().Before(deadline) {
		mu.Lock()
		n := len(batches)
		mu.Unlock()
		if n > 0 {
			break
		}
		time.Sleep(10 * time.Millisecond)
	}
	mu.Lock()
	defer mu.Unlock()
	if len(batches) == 0 {
		t.Fatalf("no batch emitted for %q", sql)
	}
	return batches[0]
}

// c04Assert checks that batch has exactly one row per expected group, reporting
// the key tuple under outCols and the expected COUNT(*) under "cnt".
func c04Assert(t *testing.T, batch []map[string]any, outCols []string, want []c04Group) {
	t.Helper()
	exp := map[string]int{}
	for _, g := range want {
		exp[c04Tuple(g.key)] = g.cnt
	}
	var problems []string
	got := map[string]int{}
	for _, r := range batch {
		tu := make([]any, len(outCols))
		for i, c := range outCols {
			v, ok := r[c]
			if !ok {
				problems = append(problems, fmt.Sprintf("result row %v has no column %q", r, c))
				tu[i] = "<missing column " + c + ">"
				continue
			}
			tu[i] = v
		}
		k := c04Tuple(tu)
		cnt := -1
		if f, ok := r["cnt"].(float64); ok {
			cnt = int(f)
		}
		if _, dup := got[k]; dup {
			problems = append(problems, fmt.Sprintf("tuple %s reported by more than one result row (equal values split)", k))
		}
		got[k] += cnt
	}
	for k, c := range exp {
		g, ok := got[k]
		if !ok {
			problems = append(problems, fmt.Sprintf("missing group %s (expected cnt=%d)", k, c))
		} else if g != c {
			problems = append(problems, fmt.Sprintf("group %s: cnt=%d, expected %d", k, g, c))
		}
	}
	for k, c := range got {
		if _, ok := exp[k]; !ok {
			problems = append(problems, fmt.Sprintf("unexpected group %s cnt=%d", k, c))
		}
	}
	if len(batch) != len(want) {
		problems = append(problems, fmt.Sprintf("batch has %d rows, expected %d (one per distinct tuple)", len(batch), len(want)))
	}
	if len(problems) > 0 {
		sort.Strings(problems)
		t.Errorf("C04 violated:\n  %s\n  batch: %v", strings.Join(problems, "\n  "), batch)
	}
}

// Finding 1: a scalar-function key with more than one argument is split at the
// commas inside its parentheses; the pieces ("coalesce(a", "b)") are accepted as
// two key columns that never resolve, so every row falls into one NULL group.
func TestC04_F1_MultiArgFunctionKeyMergesAllRows(t *testing.T) {
	rows := []map[string]any{
		{"a": "x", "b": "p"}, {"a": "y", "b": "p"}, {"a": "x", "b": "q"}, {"a": nil, "b": "q"},
	}
	batch := c04RunOneWindow(t,
		"SELECT coalesce(a, b) AS k, count(*) AS cnt FROM stream GROUP BY coalesce(a, b), TumblingWindow('1s')", rows)
	c04Assert(t, batch, []string{"k"}, []c04Group{
		{[]any{"x"}, 2}, {[]any{"y"}, 1}, {[]any{"q"}, 1},
	})
}

// Finding 2: a scalar-function key whose text contains '.' (decimal literal or
// nested-field argument) or '[' is looked up as a nested field path instead of
// by the injected row[key]; the lookup fails and every row falls into one NULL
// group.
func TestC04_F2_FunctionKeyWithDotMergesAllRows(t *testing.T) {
	t.Run("decimal literal", func(t *testing.T) {
		rows := []map[string]any{{"n": 1}, {"n": 2}, {"n": 3}, {"n": 4}}
		batch := c04RunOneWindow(t,
			"SELECT floor(n * 0.5) AS k, count(*) AS cnt FROM stream GROUP BY floor(n * 0.5), TumblingWindow('1s')", rows)
		c04Assert(t, batch, []string{"k"}, []c04Group{
			{[]any{0.0}, 1}, {[]any{1.0}, 2}, {[]any{2.0}, 1},
		})
	})
	t.Run("nested field argument", func(t *testing.T) {
		rows := []map[string]any{
			{"d": map[string]any{"name": "x"}}, {"d": map[string]any{"name": "y"}}, {"d": map[string]any{"name": "X"}},
		}
		batch := c04RunOneWindow(t,
			"SELECT upper(d.name) AS k, count(*) AS cnt FROM stream GROUP BY upper(d.name), TumblingWindow('1s')", rows)
		c04Assert(t, batch, []string{"k"}, []c04Group{
			{[]any{"X"}, 2}, {[]any{"Y"}, 1},
		})
	})
}

// Finding 3: a backtick-quoted grouping column keeps its backticks (and loses
// inner spaces) in GroupFields, so the column is never found in the row and every
// row falls into one NULL group.
func TestC04_F3_BacktickQuotedKeyMergesAllRows(t *testing.T) {
	rows := []map[string]any{{"a": "x"}, {"a": "y"}, {"a": "x"}}
	batch := c04RunOneWindow(t,
		"SELECT `a` AS k, count(*) AS cnt FROM stream GROUP BY `a`, TumblingWindow('1s')", rows)
	c04Assert(t, batch, []string{"k"}, []c04Group{
		{[]any{"x"}, 2}, {[]any{"y"}, 1},
	})
}

// Finding 4: when the AS alias of one grouping column equals the name of another
// grouping column, the sequential in-place rename drops a key value: the row no
// longer reports the tuple under the selected names and distinct tuples become
// indistinguishable.
func TestC04_F4_AliasEqualToOtherKeyColumnDropsKeyValue(t *testing.T) {
	rows := []map[string]any{
		{"a": "x", "b": "p"}, {"a": "y", "b": "p"}, {"a": "x", "b": "q"},
	}
	batch := c04RunOneWindow(t,
		"SELECT a AS b, b AS c, count(*) AS cnt FROM stream GROUP BY a, b, TumblingWindow('1s')", rows)
	// output column b carries key a, output column c carries key b
	c04Assert(t, batch, []string{"b", "c"}, []c04Group{
		{[]any{"x", "p"}, 1}, {[]any{"y", "p"}, 1}, {[]any{"x", "q"}, 1},
	})
}

// Finding 5: selecting the same grouping column under two names keeps only the
// last alias; the other selected column is missing from every result row.
func TestC04_F5_KeySelectedTwiceLosesOneColumn(t *testing.T) {
	rows := []map[string]any{{"a": "x"}, {"a": "y"}, {"a": "x"}}
	batch := c04RunOneWindow(t,
		"SELECT a, a AS k, count(*) AS cnt FROM stream GROUP BY a, TumblingWindow('1s')", rows)
	c04Assert(t, batch, []string{"a", "k"}, []c04Group{
		{[]any{"x", "x"}, 2}, {[]any{"y", "y"}, 1},
	})
}

// Finding 6: the numeric key values +0 and -0 are equal but are split into two
// groups, because non-string key values are compared by their "%v" text.
func TestC04_F6_NegativeZeroSplitsEqualValues(t *testing.T) {
	negZero := math.Copysign(0, -1)
	t.Run("plain column", func(t *testing.T) {
		rows := []map[string]any{{"n": 0.0}, {"n": negZero}, {"n": 1.0}}
		batch := c04RunOneWindow(t,
			"SELECT n, count(*) AS cnt FROM stream GROUP BY n, TumblingWindow('1s')", rows)
		c04Assert(t, batch, []string{"n"}, []c04Group{
			{[]any{0.0}, 2}, {[]any{1.0}, 1},
		})
	})
	t.Run("round()", func(t *testing.T) {
		rows := []map[string]any{{"n": 0.4}, {"n": -0.4}, {"n": 1.2}}
		batch := c04RunOneWindow(t,
			"SELECT round(n) AS k, count(*) AS cnt FROM stream GROUP BY round(n), TumblingWindow('1s')", rows)
		c04Assert(t, batch, []string{"k"}, []c04Group{
			{[]any{0.0}, 2}, {[]any{1.0}, 1},
		})
	})
}

// Finding 7: with SELECT DISTINCT the per-group result rows are de-duplicated by
// their JSON text; json.Marshal replaces every invalid UTF-8 byte by U+FFFD, so
// two groups whose string keys differ only in such bytes (and have equal
// aggregates) are merged into one result row.
func TestC04_F7_DistinctMergesGroupsDifferingInNonUTF8Bytes(t *testing.T) {
	rows := []map[string]any{{"a": "k\xff"}, {"a": "k\xfe"}, {"a": "ok"}}
	batch := c04RunOneWindow(t,
		"SELECT DISTINCT a, count(*) AS cnt FROM stream GROUP BY a, TumblingWindow('1s')", rows)
	c04Assert(t, batch, []string{"a"}, []c04Group{
		{[]any{"k\xff"}, 1}, {[]any{"k\xfe"}, 1}, {[]any{"ok"}, 1},
	})
}

// Control (PASSES): the same harness on plain 2-column string keys, including
// separator-like characters, empty string and NULL/missing, shows the harness and
// expectations are sound and that those inputs are handled correctly.
func TestC04_Control_PlainKeysPass(t *testing.T) {
	rows := []map[string]any{
		{"a": "x", "b": "y"}, {"a": "x|y", "b": ""}, {"a": "x", "b": "|y"}, {"a": "", "b": "x|y"},
		{"a": "x\x1fy", "b": "z"}, {"a": "x", "b": "y\x1fz"}, {"a": nil, "b": "y"}, {"b": "y"}, {"a": "", "b": "y"},
		{"a": "x", "b": "y"}, {"a": "a,b", "b": "c"}, {"a": "a", "b": "b,c"}, {"a": "\x00NULL", "b": "y"},
	}
	batch := c04RunOneWindow(t,
		"SELECT a AS k1, b AS k2, count(*) AS cnt FROM stream GROUP BY a, b, TumblingWindow('1s')", rows)
	c04Assert(t, batch, []string{"k1", "k2"}, []c04Group{
		{[]any{"x", "y"}, 2}, {[]any{"x|y", ""}, 1}, {[]any{"x", "|y"}, 1}, {[]any{"", "x|y"}, 1},
		{[]any{"x\x1fy", "z"}, 1}, {[]any{"x", "y\x1fz"}, 1}, {[]any{nil, "y"}, 2}, {[]any{"", "y"}, 1},
		{[]any{"a,b", "c"}, 1}, {[]any{"a", "b,c"}, 1}, {[]any{"\x00NULL", "y"}, 1},
	})
}
